#!/bin/bash
# usage: verify_seed.sh <ID> [srcdir]  -- confirm a seeded change independently in a scratch worktree:
#  (1) patch applies and builds, (2) existing tests of the touched packages pass with it,
#  (3) the demonstration fails with it and (4) passes without it. On success copies it to /verif/seeded/<ID>/.
ID="$1"; SRC="${2:-/tmp/seed-out/$ID}"
export GOFLAGS=-mod=mod GOPROXY=off
W=/tmp/seedverify-$ID-$$
LOG=$SRC/verify.log
: > $LOG
git -C /repo worktree add -q --detach $W HEAD >>$LOG 2>&1 || exit 3
cleanup() { git -C /repo worktree remove --force $W >/dev/null 2>&1; }
trap cleanup EXIT
cd $W
PKGDIR=$(python3 -c "import json;print(json.load(open('$SRC/meta.json'))['demo']['package_dir'].strip('/').lstrip('./'))")
TEST=$(python3 -c "import json;print(json.load(open('$SRC/meta.json'))['demo']['test_name'])")
for f in $SRC/*_test.go; do cp $f $W/$PKGDIR/zz_seed_$(basename $f); done
echo "== demo without patch" >>$LOG
go test -count=1 -vet=off -run "^${TEST}\$" ./$PKGDIR/ >>$LOG 2>&1; R_WITHOUT=$?
git apply $SRC/patch.diff >>$LOG 2>&1 || { echo "FAIL $ID: patch does not apply"; exit 1; }
echo "== build" >>$LOG
go build ./... >>$LOG 2>&1; R_BUILD=$?
echo "== demo with patch" >>$LOG
go test -count=1 -vet=off -run "^${TEST}\$" ./$PKGDIR/ >>$LOG 2>&1; R_WITH=$?
rm -f $W/$PKGDIR/zz_seed_*_test.go
PKGS=$(git diff --name-only | xargs -n1 dirname | sort -u | sed 's|^|./|;s|$|/|' | tr '\n' ' ')
echo "== existing tests with patch: $PKGS" >>$LOG
go test -count=1 -vet=off -timeout 20m $PKGS > $SRC/suite.log 2>&1
cat $SRC/suite.log >> $LOG
# TestSyslogFilter is a known pre-existing failure; a flaky timing test is retried once
R_SUITE=$(grep "^--- FAIL" $SRC/suite.log | grep -vc TestSyslogFilter)
if [ "$R_SUITE" != 0 ]; then
  # timing/port flakes under load: re-run each failing test on its own (up to 3 times); it must pass at least once
  R_SUITE=0
  for T in $(grep "^--- FAIL" $SRC/suite.log | grep -v TestSyslogFilter | awk '{print $3}' | sort -u); do
    OK=1
    for k in 1 2 3; do
      echo "== retry $T ($k)" >>$LOG
      if go test -count=1 -vet=off -timeout 10m -run "^${T}\$" $PKGS >>$LOG 2>&1; then OK=0; break; fi
    done
    if [ $OK != 0 ]; then
      # still failing: does it fail on the unmodified tree as well, right now (machine load, ports, mDNS)? Then it says nothing about the patch.
      W2=/tmp/seedverify-base-$ID-$$
      git -C /repo worktree add -q --detach $W2 HEAD >>$LOG 2>&1
      BASEFAIL=0
      for k in 1 2; do
        echo "== baseline $T ($k)" >>$LOG
        (cd $W2 && go test -count=1 -vet=off -timeout 10m -run "^${T}\$" $PKGS) >>$LOG 2>&1 || BASEFAIL=$((BASEFAIL+1))
      done
      git -C /repo worktree remove --force $W2 >/dev/null 2>&1
      if [ $BASEFAIL = 2 ]; then echo "== $T fails on the unmodified tree too (2/2): environment, not counted" >>$LOG; OK=0; fi
    fi
    [ $OK = 0 ] || R_SUITE=$((R_SUITE+1))
  done
fi
echo "$ID build=$R_BUILD demo_without=$R_WITHOUT(want 0) demo_with=$R_WITH(want !=0) suite_fails=$R_SUITE(want 0)" | tee -a $LOG
if [ $R_BUILD = 0 ] && [ $R_WITHOUT = 0 ] && [ $R_WITH != 0 ] && [ "$R_SUITE" = 0 ]; then
  mkdir -p /verif/seeded/$ID; cp $SRC/patch.diff $SRC/meta.json $SRC/*_test.go /verif/seeded/$ID/ 2>/dev/null
  echo "CONFIRMED $ID"
else
  echo "REJECTED $ID (see $LOG)"
fi
