#!/bin/bash
# Runs the checks anchored in the touched code against each behaviour-preserving refactor under /verif/benign: every line must be OK exit=0.
cd /verif
run() { n=$1; shift; for id in "$@"; do r=$(./trypatch.sh benign/$n/patch.diff $id 2>&1 | grep -E "^(OK|VIOLATION|INCONCLUSIVE|exit=)" | tr '\n' ' ' | cut -c1-160); echo "$n $id :: $r"; done; }
run intents C02 C03 C04 C15 C16
run events C04 C05 C06 C07 C08 C09
run snapshot C10 C11 C12 C13 C14
run coalesce C16 C17 C18
run query C08 C35 C23 C36
run agentipc C24 C25 C26
run agentmisc C22 C30 C27 C31
run coordclient C28
