#!/usr/bin/env python3
# prints the sub-agent prompt for seeding a breaking change for property <ID> (only the property text + worktree path)
import json,sys
pid=sys.argv[1]; n=sys.argv[2] if len(sys.argv)>2 else ""
taken=""
for prev in ("", "b", "c"):
    if not n or prev >= n: continue
    try:
        m=json.load(open(f"/verif/seeded/{pid}{prev}/meta.json"))
        taken+="\nALREADY TAKEN (someone else already did this one - pick a DIFFERENT mechanism, in a different function if possible): "+m.get("summary","")[:600]+"\n"
    except Exception: pass
rec=[json.loads(l) for l in open('/verif/properties.jsonl') if json.loads(l)['id']==pid][0]
for k in ('added_in_round','source'): rec.pop(k,None)
wt=f"/tmp/seedwt-{pid}{n}"; out=f"/tmp/seed-out/{pid}{n}"
print(f"""You are helping to evaluate a verification effort for the Go project hashicorp/serf. Your job: craft ONE realistic, subtle code change to hashicorp/serf that BREAKS the semantic property below while the project still compiles and its existing test suite still passes, plus a demonstration that exposes it.

PROPERTY (JSON record):
{json.dumps(rec,indent=1)}

{taken}
WORKSPACE: your own scratch git worktree of the repository is at {wt} (already created; work ONLY there; never touch /repo or /verif, and do not read anything under /verif). Write results to {out}/ (create it).

GO ENVIRONMENT (no network; run this at the start of EVERY shell command, env is not kept):
  export PATH=/root/go/pkg/mod/golang.org/toolchain@v0.0.1-go1.25.0.linux-amd64/bin:$PATH GOTOOLCHAIN=local GOFLAGS=-mod=mod GOPROXY=off GOSUMDB=off

REQUIREMENTS
1. The change must be the kind of thing a maintainer could plausibly write (a refactor gone slightly wrong, an off-by-one, a dropped/condensed condition, reordered statements, a lock released early, a check moved...). Not a blatant sabotage, no dead 'if false', no new special-casing of magic values. Keep it small (typically 1-15 changed lines), in non-test source files only.
2. It must need something SPECIFIC to manifest: a particular interleaving, a crash or fault at a particular point, a multi-step sequence of operations, an unusual input value, or two cooperating sites that each look fine alone. Ordinary use (and hence the existing tests) must NOT expose it at once.
3. With the change applied: `go build ./...` succeeds and the existing tests of every package you touched still pass (`go test -count=1 -vet=off -timeout 20m ./<pkgdir>/`; TestSyslogFilter in the agent package is a known pre-existing failure, ignore it; a timing-flaky test may be retried once).
4. Write a demonstration: a Go test file `demo_test.go` (in the package of the changed code, may use unexported identifiers; give the test function a unique name starting with `Test{pid}Demo`) that FAILS with your change and PASSES on the unmodified code. The demo should check the property's observable behaviour, be deterministic (avoid sleeps/races where possible; construct state directly if needed), and finish in <60s.
   NOTE: the unmodified code may already violate this property in some corner (that is not your concern) - just make sure your demo passes on the unmodified code and your change introduces a NEW, different violation.
5. Verify everything yourself: demo passes without the patch, fails with it; build ok; package tests pass with it.
6. Deliverables in {out}/:
   - patch.diff : `git diff` of your change (source only, NOT including the demo test), applicable with `git apply` at the repo root.
   - demo_test.go : the demonstration test file.
   - meta.json : {{"property": "{pid}", "summary": "<what was changed and why it breaks the property>", "needs_to_manifest": "<the specific interleaving/input/sequence needed>", "files_changed": [...], "demo": {{"package_dir": "<dir relative to repo root, e.g. serf or cmd/serf/command/agent or client or coordinate>", "test_name": "<Test function name>", "fails_with_patch": true, "passes_without_patch": true}}, "existing_tests_run": "<what you ran and the outcome>"}}
NOTE: do NOT use `git stash` (the stash is shared between worktrees and other people use it); to test without your change use `git diff > /tmp/x.diff; git apply -R` or keep a copy.
7. When done, leave the worktree with your change reverted or not - it will be deleted. Reply with a 5-line summary.
Do not ask questions; make reasonable decisions yourself. Budget: aim to finish within ~40 minutes.""")
