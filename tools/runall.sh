#!/bin/bash
# runs every registered check (tier $1, default quick), one after the other; summary on stdout
# usage: tools/runall.sh [quick|thorough] [per-check timeout seconds] [ids...]
TIER=${1:-quick}; TMO=${2:-3600}; shift; shift
cd /verif
IDS="$@"; [ -z "$IDS" ] && IDS=$(awk '{print $1}' props.conf | sort -u)
for p in $IDS; do
  s=$(date +%s)
  VERIF_PROGRESS=1 timeout $TMO ./check $p $TIER > /tmp/runall-$TIER-$p.log 2>&1
  rc=$?
  echo "$p rc=$rc $(( $(date +%s) - s ))s $(grep -E '^(OK|VIOLATION|INCONCLUSIVE)' /tmp/runall-$TIER-$p.log | head -n 1 | cut -c1-150)"
done
