#!/bin/bash
# runs every registered check (tier $1, default quick), one after the other; summary on stdout
TIER=${1:-quick}
cd /verif
for p in $(awk '{print $1}' props.conf | sort -u); do
  s=$(date +%s)
  timeout 3600 ./check $p $TIER > /tmp/runall-$p.log 2>&1
  rc=$?
  echo "$p rc=$rc $(( $(date +%s) - s ))s $(grep -E '^(OK|VIOLATION|INCONCLUSIVE)' /tmp/runall-$p.log | head -n 1 | cut -c1-150)"
done
