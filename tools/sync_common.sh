#!/bin/bash
# regenerates the per-package copies of the harness intrinsics from the serf copy
for p in agent client coordinate; do
  sed "s/^package serf$/package $p/" /verif/harness/serf/zz_verif_common.go > /verif/harness/$p/zz_verif_common.go
done
