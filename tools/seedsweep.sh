#!/bin/bash
# Runs the quick check of every seeded change's property against the change (in a scratch worktree) and prints one line each.
# usage: tools/seedsweep.sh [ids...]   (default: all of /verif/seeded); every line must end in VIOLATION ... exit=1
cd /verif
DIRS="$@"; [ -z "$DIRS" ] && DIRS=$(ls seeded)
for d in $DIRS; do
  id=$(echo $d | cut -c1-3)
  r=$(./trypatch.sh seeded/$d/patch.diff $id 2>&1 | grep -E "^(OK|VIOLATION|INCONCLUSIVE|exit=)" | tr '\n' ' ' | cut -c1-200)
  echo "$d :: $r"
done
