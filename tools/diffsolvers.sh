#!/bin/bash
# Differential run: the same encodings decided by z3 4.8.12 (default), z3 5.1 (z3new) and cvc5 1.0.
# usage: tools/diffsolvers.sh <ids...>   -- prints one line per (property, solver); the path/obligation counts and the verdict must agree.
cd /verif
for p in "$@"; do
  for s in z3 z3new cvc5; do
    r=$(VERIF_SOLVER=$s timeout 1800 ./check $p quick -noevidence 2>&1 | grep -E '^(OK|VIOLATION|INCONCLUSIVE)' | head -n 1 | sed 's/ wall=.*//; s/ feasibility-queries=[0-9]*//; s/ replayed=[0-9]*//')
    echo "$p $s :: $r"
  done
done
