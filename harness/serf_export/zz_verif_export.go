//go:build verif

package serf

// Exported constructors/accessors for harnesses in OTHER packages (agent,
// client) that need Serf values with unexported fields. Injected by overlay
// only; carries the verif build tag; not part of /repo.

import "time"

// VfNewQueryResponse builds an open query result object as Serf.Query does.
func VfNewQueryResponse(n int, wantAck bool, lt LamportTime, id uint32, timeout time.Duration) *QueryResponse {
	flags := uint32(0)
	if wantAck {
		flags |= queryFlagAck
	}
	return newQueryResponse(n, &messageQuery{LTime: lt, ID: id, Flags: flags, Timeout: timeout})
}

// VfDeliverAck / VfDeliverResponse put a reply on the streams exactly as
// handleQueryResponse does (through sendAck / sendResponse).
func (r *QueryResponse) VfDeliverAck(from string) {
	r.sendAck(&messageQueryResponse{From: from, Flags: queryFlagAck}) //nolint:errcheck
}

func (r *QueryResponse) VfDeliverResponse(from string, payload []byte) {
	r.sendResponse(NodeResponse{From: from, Payload: payload}) //nolint:errcheck
}

// VfNewQuery builds an incoming query event as handleQuery does.
func VfNewQuery(name string, lt LamportTime, id uint32, payload []byte) *Query {
	return &Query{LTime: lt, Name: name, Payload: payload, id: id, deadline: time.Now().Add(time.Hour)}
}
