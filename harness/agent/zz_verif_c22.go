//go:build verif

package agent

import (
	"bytes"
	"encoding/base64"

	"github.com/hashicorp/memberlist"
	"github.com/hashicorp/serf/serf"
)

// C22 (agent side): the keyring loader rebuilds, from a keyring file that lists
// a valid ring in order (primary first), exactly that ring with that primary.
// Together with VfC22_Step in package serf (the file always lists the ring in
// order) this gives "reloads exactly".

//vf:unwind 40
//vf:bound state keyring file listing 1..3 distinct keys of 16 or 24 symbolic bytes
//vf:stub os.Stat/ReadFile + json.Unmarshal -> abstract file holding the marshalled value; base64 -> identity on bytes
//vf:nonative
func VfC22_Loader() {
	n := 1 + vfChoice("nring", 3)
	keys := make([][]byte, n)
	var enc []string
	for i := range keys {
		if vfBool("key.long") {
			keys[i] = vfFixedBytes("key", 24)
		} else {
			keys[i] = vfFixedBytes("key", 16)
		}
		for j := 0; j < i; j++ {
			vfAssume(!bytes.Equal(keys[i], keys[j]))
		}
		enc = append(enc, base64.StdEncoding.EncodeToString(keys[i]))
	}
	vfFileSet("keyring.json", enc)
	a := &Agent{agentConf: &Config{}, conf: &serf.Config{MemberlistConfig: &memberlist.Config{}}}
	err := a.loadKeyringFile("keyring.json")
	vfReach("C22.loader.done")
	vfAssert("C22.loader.ok", err == nil)
	ring := a.conf.MemberlistConfig.Keyring
	vfAssert("C22.loader.ring", ring != nil)
	if ring == nil {
		return
	}
	got := ring.GetKeys()
	vfAssert("C22.loader.count", len(got) == n)
	for i := range got {
		if i < n {
			vfAssert("C22.loader.same", bytes.Equal(got[i], keys[i]))
		}
	}
	vfAssert("C22.loader.primary", bytes.Equal(ring.GetPrimaryKey(), keys[0]))
}

// VfC22_LoaderBad: an absent or empty keyring file is an error, not an empty ring.
//
//vf:nonative
func VfC22_LoaderBad() {
	a := &Agent{agentConf: &Config{}, conf: &serf.Config{MemberlistConfig: &memberlist.Config{}}}
	if vfBool("present") {
		vfFileSet("keyring.json", []string{})
	}
	err := a.loadKeyringFile("keyring.json")
	vfReach("C22.loaderbad.done")
	vfAssert("C22.loaderbad.error", err != nil && a.conf.MemberlistConfig.Keyring == nil)
}
