//go:build verif

package agent

import (
	"time"

	"github.com/hashicorp/memberlist"
	"github.com/hashicorp/serf/serf"
)

// C30: tag edits apply as documented and persisted tags match effective tags.
//
// The real chain handleTags -> Agent.SetTags -> writeTagsFile / Serf.SetTags is
// executed on a Serf built by the real serf.Create (memberlist.Create stubbed).
// The encoded size of a tag set is arbitrary (the codec is C32's, not
// encodable), so "the node rejects the edit" is decided by the solver.


var vfC30FirstEncode = true

// vfStubEncodeTags: arbitrary encoded size, except that the tags the node
// starts with fit (Create would have refused them otherwise).
func vfStubEncodeTags(s *serf.Serf, tags map[string]string) []byte {
	if vfC30FirstEncode {
		vfC30FirstEncode = false
		return []byte{255}
	}
	return vfOpaqueBytes("taglen")
}

const vfTagsFile = "tags.json"

var vfC30Keys = [3]string{"a", "b", "c"}

func vfC30Agent(old map[string]string) (*Agent, *AgentIPC) {
	vfC30FirstEncode = true
	conf := &serf.Config{
		NodeName:           "self",
		ProtocolVersion:    5,
		EventBuffer:        4,
		QueryBuffer:        4,
		DisableCoordinates: true,
		Tags:               old,
		BroadcastTimeout:   time.Second,
		MemberlistConfig:   &memberlist.Config{Name: "self"},
	}
	s, err := serf.Create(conf)
	vfAssert("C30.setup.serf", err == nil && s != nil)
	a := &Agent{conf: conf, agentConf: &Config{TagsFile: vfTagsFile}, serf: s}
	// invariant: the tags file holds the tags in effect
	cp := map[string]string{}
	for k, v := range old {
		cp[k] = v
	}
	vfFileSet(vfTagsFile, cp)
	return a, &AgentIPC{agent: a}
}

func vfC30Old() map[string]string {
	old := map[string]string{}
	for _, k := range vfC30Keys[:2] {
		if vfBool("old." + k) {
			old[k] = string(vfFixedBytes("oldv."+k, 1))
		}
	}
	return old
}

func vfC30Request() *tagsRequest {
	req := &tagsRequest{Tags: map[string]string{}}
	nd := vfChoice("ndel", 3)
	for j := 0; j < nd; j++ {
		req.DeleteTags = append(req.DeleteTags, vfC30Keys[vfChoice("del", 3)])
	}
	for _, k := range []string{"a", "c"} {
		if vfBool("set." + k) {
			req.Tags[k] = string(vfFixedBytes("setv."+k, 1))
		}
	}
	return req
}

// vfC30SameMap: a and b have the same keys (over the key universe) and values.
func vfC30SameMap(a, b map[string]string) bool {
	ok := len(a) == len(b)
	for _, k := range vfC30Keys {
		va, ha := a[k]
		vb, hb := b[k]
		ok = vfAnd(ok, ha == hb)
		if ha && hb {
			ok = vfAnd(ok, va == vb)
		}
	}
	return ok
}

func vfC30Persisted() (map[string]string, bool) {
	var m map[string]string
	ok := vfFileJSON(vfTagsFile, &m)
	return m, ok
}

//vf:unwind 16
//vf:paths quick=400000 thorough=4000000
//vf:override github.com/hashicorp/memberlist.Create = github.com/hashicorp/serf/cmd/serf/command/agent.vfStubMlCreate
//vf:override (*github.com/hashicorp/serf/serf.Serf).encodeTags = github.com/hashicorp/serf/cmd/serf/command/agent.vfStubEncodeTags
//vf:override (*github.com/hashicorp/serf/cmd/serf/command/agent.IPCClient).Send = github.com/hashicorp/serf/cmd/serf/command/agent.vfStubSend
//vf:bound inputs previous tags: subset of 2 keys with 1-byte symbolic values; edit: <=2 deletions over 3 keys, <=2 set keys with symbolic values; encoded size of the new tag set arbitrary (so the size check accepts or rejects); memberlist.UpdateNode succeeds or fails
//vf:stub memberlist.Create -> nil; Serf.encodeTags -> opaque bytes of arbitrary length; os/json -> abstract file; msgpack decoder -> queue; IPCClient.Send -> recorder
//vf:nonative
func VfC30_Edit() {
	vfSent = nil
	live := vfC30Old()
	old := map[string]string{} // snapshot: the live map must not be edited in place
	for k, v := range live {
		old[k] = v
	}
	a, i := vfC30Agent(live)
	vfMlFaults()
	req := vfC30Request()
	vfQueueDecode(req)
	err := i.handleTags(&IPCClient{name: "c", version: 1}, 9)
	vfReach("C30.edit.done")
	vfAssert("C30.edit.replied", err == nil && len(vfSent) == 1 && vfSent[0].hdr.Seq == 9)
	// documented result of the edit: previous - deleted + set (set wins)
	want := map[string]string{}
	for k, v := range old {
		del := false
		for _, d := range req.DeleteTags {
			del = del || d == k
		}
		if !del {
			want[k] = v
		}
	}
	for k, v := range req.Tags {
		want[k] = v
	}
	accepted := len(vfSent) == 1 && vfSent[0].hdr.Error == ""
	eff := a.conf.Tags
	if accepted {
		vfAssert("C30.edit.result", vfC30SameMap(eff, want))
	}
	// persisted == effective, whatever the outcome
	pm, ok := vfC30Persisted()
	vfAssert("C30.persist.readable", ok)
	vfAssert("C30.persist.matches.effective", vfC30SameMap(pm, eff))
	// an edit the size check rejected leaves the effective tags as they were
	if !accepted && vfStubCalls("UpdateNode") == 0 {
		vfAssert("C30.rejected.effective.unchanged", vfC30SameMap(eff, old))
	}
}
