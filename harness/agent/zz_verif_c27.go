//go:build verif

package agent

import (
	"net"

	"github.com/hashicorp/serf/serf"
)

// C27 (encodable part): handler filters, the stdin line format and the payload
// newline rule. Process execution, the environment seen by the script and the
// query response from script output cannot be encoded (see DESIGN 6 / C27).

type vfPipe struct {
	data   []byte
	closed int
}

func (p *vfPipe) Write(b []byte) (int, error) {
	p.data = append(p.data, b...)
	return len(b), nil
}
func (p *vfPipe) Close() error { p.closed++; return nil }

var vfEventNames = [...]string{"*", "user", "query", "member-join", "member-leave", "member-failed", "member-update", "member-reap", "bogus"}

// VfC27_Invoke: a handler runs for an event exactly when its filter matches.
//
//vf:unwind 12
//vf:bound inputs filter event from 9 names (all valid ones + an invalid one), filter name of 0..2 (thorough 0..3) symbolic bytes; event: user event / query with a name of 0..2 (thorough 0..3) symbolic bytes, or any of the 5 member events
func VfC27_Invoke() {
	f := EventFilter{Event: vfEventNames[vfChoice("fevent", len(vfEventNames))], Name: vfString("fname", 2+vfTier())}
	var e serf.Event
	var etype, ename string
	switch vfChoice("ekind", 3) {
	case 0:
		ename = vfString("ename", 2+vfTier())
		e, etype = serf.UserEvent{Name: ename}, "user"
	case 1:
		ename = vfString("ename", 2+vfTier())
		e, etype = serf.VfNewQuery(ename, 1, 2, nil), "query"
	case 2:
		t := serf.EventMemberJoin + serf.EventType(vfChoice("mtype", 5))
		e = serf.MemberEvent{Type: t}
		etype = [...]string{"member-join", "member-leave", "member-failed", "member-update", "member-reap"}[int(t-serf.EventMemberJoin)]
	}
	got := f.Invoke(e)
	want := false
	if f.Event == "*" {
		want = true
	} else if f.Event == etype {
		if (etype == "user" || etype == "query") && f.Name != "" {
			want = f.Name == ename
		} else {
			want = true
		}
	}
	vfReach("C27.invoke.done")
	vfAssert("C27.invoke.iff", got == want)
}

// VfC27_Parse: handler specifications: "", "*", lists of event types,
// user:NAME and query:NAME.
//
//vf:unwind 24
//vf:bound inputs 1-2 comma separated items from {*, user, query, member-join, user:N, query:N, user:, N} with N one symbolic byte other than ',' ; or the empty specification
func VfC27_Parse() {
	n := vfChoice("nitems", 3)
	spec := ""
	var wantE, wantN []string
	for i := 0; i < n; i++ {
		nm := string(vfFixedBytes("n", 1))
		vfAssume(nm != ",")
		vfAssume(nm != "=")
		var item, we, wn string
		switch vfChoice("item", 8) {
		case 0:
			item, we = "*", "*"
		case 1:
			item, we = "user", "user"
		case 2:
			item, we = "query", "query"
		case 3:
			item, we = "member-join", "member-join"
		case 4:
			item, we, wn = "user:"+nm, "user", nm
		case 5:
			item, we, wn = "query:"+nm, "query", nm
		case 6:
			item, we = "user:", "user"
		case 7:
			item, we = nm, nm
		}
		if i > 0 {
			spec += ","
		}
		spec += item
		wantE, wantN = append(wantE, we), append(wantN, wn)
	}
	if n == 0 {
		wantE, wantN = []string{"*"}, []string{""}
	}
	got := ParseEventFilter(spec)
	vfReach("C27.parse.done")
	vfAssert("C27.parse.count", len(got) == len(wantE))
	for i := range got {
		if i < len(wantE) {
			vfAssert("C27.parse.item", got[i].Event == wantE[i] && got[i].Name == wantN[i])
		}
	}
	// and the script form "filter=script"
	scripts := ParseEventScript(spec + "=run.sh")
	vfAssert("C27.parse.script.count", len(scripts) == len(wantE))
	for i := range scripts {
		if i < len(wantE) {
			vfAssert("C27.parse.script.item", scripts[i].Event == wantE[i] && scripts[i].Name == wantN[i] && scripts[i].Script == "run.sh")
		}
	}
}

// VfC27_Payload: stdin of a user-event/query handler is the payload plus
// exactly one trailing newline iff it is non-empty and not already terminated.
//
//vf:unwind 12
//vf:bound inputs payload of 0..3 (thorough 0..4) symbolic bytes
func VfC27_Payload() {
	pl := vfBytes("payload", 3+vfTier())
	orig := append([]byte{}, pl...)
	p := &vfPipe{}
	streamPayload(nil, p, pl)
	vfReach("C27.payload.done")
	vfAssert("C27.payload.closed", p.closed == 1)
	if len(orig) == 0 {
		vfAssert("C27.payload.empty", len(p.data) == 0)
		return
	}
	if orig[len(orig)-1] == '\n' {
		vfAssert("C27.payload.terminated.kept", string(p.data) == string(orig))
	} else {
		vfAssert("C27.payload.newline.added", string(p.data) == string(orig)+"\n")
	}
}

func vfCountByte(b []byte, c byte) int {
	n := 0
	for _, x := range b {
		n += vfB2I(x == c)
	}
	return n
}

// VfC27_Line: stdin of a member-event handler: one line per member with exactly
// four tab-separated fields; tabs and newlines inside name, role and tags are
// escaped, so each line has exactly three tabs and ends with its only newline.
//
//vf:unwind 40
//vf:paths quick=400000 thorough=4000000
//vf:bound inputs 1 member; name of 0..2 symbolic bytes; role tag absent or 1 symbolic byte; one more tag with 1-symbolic-byte key and value
//vf:stub net.IP.String -> real formatting of the concrete address
func VfC27_Line() {
	m := serf.Member{Name: vfString("name", 2), Addr: net.IP{10, 0, 0, 1}, Tags: map[string]string{}}
	if vfBool("hasRole") {
		m.Tags["role"] = string(vfFixedBytes("role", 1))
	}
	k := string(vfFixedBytes("tagk", 1))
	vfAssume(k != "r")
	m.Tags[k] = string(vfFixedBytes("tagv", 1))
	p := &vfPipe{}
	memberEventStdin(nil, p, &serf.MemberEvent{Type: serf.EventMemberJoin, Members: []serf.Member{m}})
	vfReach("C27.line.done")
	vfAssert("C27.line.closed", p.closed == 1)
	vfAssert("C27.line.tabs", vfCountByte(p.data, '\t') == 3)
	vfAssert("C27.line.newline", vfCountByte(p.data, '\n') == 1 && len(p.data) > 0 && p.data[len(p.data)-1] == '\n')
}
