//go:build verif

package agent

// C29: agent log lines are delivered completely and in order.

type vfSink struct{ lines []string }

func (s *vfSink) Write(p []byte) (int, error) {
	s.lines = append(s.lines, string(p))
	return len(p), nil
}

type vfLogRec struct{ got []string }

func (r *vfLogRec) HandleLog(l string) { r.got = append(r.got, l) }

func vfCount(lines []string, x string) int {
	n := 0
	for _, l := range lines {
		if l == x {
			n++
		}
	}
	return n
}

func vfIndex(lines []string, x string) int {
	for i, l := range lines {
		if l == x {
			return i
		}
	}
	return -1
}

// VfC29_Gate: two concurrent writers and the gate opening. Each writer writes
// one line before and one line after it has seen the gate open(ed) or not;
// every line must reach the underlying writer exactly once, and a line whose
// Write had returned before Flush was called precedes every line whose Write
// began after Flush had returned.
//
//vf:sched
//vf:switches quick=2 thorough=3
//vf:paths quick=800000 thorough=8000000
//vf:unwind 16
//vf:bound threads 2 writers (1 early line by the main thread, then 1 line each, concurrently) || Flush; the writer's fields are racy locations (scheduling point at every load and store)
//vf:nonative
func VfC29_Gate() {
	sink := &vfSink{}
	w := &GatedWriter{Writer: sink}
	vfRacy(w)
	w.Write([]byte("early"))
	flushed := false
	vfGo(func() { w.Write([]byte("w1")) })
	vfGo(func() { w.Write([]byte("w2")) })
	vfGo(func() { w.Flush(); flushed = true })
	vfWaitThreads()
	vfAssert("C29.gate.flushed", flushed)
	w.Write([]byte("late"))
	vfReach("C29.gate.done")
	for _, l := range []string{"early", "w1", "w2", "late"} {
		vfAssert("C29.gate.exactly.once."+l, vfCount(sink.lines, l) == 1)
	}
	vfAssert("C29.gate.nothing.else", len(sink.lines) == 4)
	ie, il := vfIndex(sink.lines, "early"), vfIndex(sink.lines, "late")
	if ie >= 0 && il >= 0 {
		vfAssert("C29.gate.early.first", ie == 0)
		vfAssert("C29.gate.late.last", il == len(sink.lines)-1)
	}
}

// VfC29_GateOrder: a line written after the gate opened never overtakes lines
// that were buffered before: writer || Flush, the buffered lines keep their order
// and precede the concurrent writer's line if that was written through directly.
//
//vf:sched
//vf:switches quick=3 thorough=4
//vf:paths quick=800000 thorough=8000000
//vf:unwind 16
//vf:bound threads 2 buffered lines, then Flush || 1 writer
//vf:nonative
func VfC29_GateOrder() {
	sink := &vfSink{}
	w := &GatedWriter{Writer: sink}
	vfRacy(w)
	w.Write([]byte("b1"))
	w.Write([]byte("b2"))
	vfGo(func() { w.Write([]byte("x")) })
	w.Flush()
	vfWaitThreads()
	vfReach("C29.order.done")
	i1, i2, ix := vfIndex(sink.lines, "b1"), vfIndex(sink.lines, "b2"), vfIndex(sink.lines, "x")
	vfAssert("C29.order.all", len(sink.lines) == 3 && i1 >= 0 && i2 >= 0 && ix >= 0)
	vfAssert("C29.order.buffered", i1 < i2)
	// both buffered writes had returned before x's writer was even started: x is a later line, whether it was
	// buffered behind them or written through after the gate opened
	vfAssert("C29.order.later.after.buffered", ix > i2)
}

// VfC29_Ring: from an arbitrary valid ring state (size 1..3, any index,
// wrapped or not, symbolic line contents) a new monitor first receives the
// buffered lines oldest first, then every later line exactly once; a second
// monitor attached afterwards receives the most recent lines (up to the size).
//
//vf:unwind 24
//vf:bound state ring of size 1..3, index anywhere, wrapped or not, lines of 1 symbolic byte (non-empty, as log.Logger produces); then 2 writes (optionally newline-terminated)
func VfC29_Ring() {
	n := 1 + vfChoice("size", 3)
	l := NewLogWriter(n)
	idx := vfChoice("index", n)
	wrapped := vfBool("wrapped")
	var old []string // oldest first
	if wrapped {
		for i := 0; i < n; i++ {
			l.logs[i] = string(vfFixedBytes("line", 1))
		}
		for i := idx; i < n; i++ {
			old = append(old, l.logs[i])
		}
		for i := 0; i < idx; i++ {
			old = append(old, l.logs[i])
		}
	} else {
		for i := 0; i < idx; i++ {
			l.logs[i] = string(vfFixedBytes("line", 1))
			old = append(old, l.logs[i])
		}
	}
	l.index = idx
	h := &vfLogRec{}
	l.RegisterHandler(h)
	vfReach("C29.ring.registered")
	vfAssert("C29.ring.replay.count", len(h.got) == len(old))
	for i := range old {
		if i < len(h.got) {
			vfAssert("C29.ring.replay.order", h.got[i] == old[i])
		}
	}
	all := append([]string{}, old...)
	for k := 0; k < 2; k++ {
		line := string(vfFixedBytes("new", 1))
		p := []byte(line)
		if vfBool("newline") {
			p = append(p, '\n')
		}
		vfAssume(line != "\n")
		l.Write(p)
		all = append(all, line)
	}
	vfAssert("C29.ring.live.count", len(h.got) == len(old)+2)
	if len(h.got) == len(old)+2 {
		vfAssert("C29.ring.live.lines", h.got[len(old)] == all[len(old)] && h.got[len(old)+1] == all[len(old)+1])
	}
	// registering the same monitor again is a no-op
	l.RegisterHandler(h)
	vfAssert("C29.ring.noduplicate.registration", len(h.got) == len(old)+2)
	// a monitor attached now sees the most recent min(n, total) lines, oldest first
	h2 := &vfLogRec{}
	l.RegisterHandler(h2)
	want := all
	if len(want) > n {
		want = want[len(want)-n:]
	}
	vfAssert("C29.ring.second.count", len(h2.got) == len(want))
	for i := range want {
		if i < len(h2.got) {
			vfAssert("C29.ring.second.order", h2.got[i] == want[i])
		}
	}
}

// VfC29_RingConcurrent: a monitor attaches while another goroutine writes a
// line: the monitor sees the buffered lines first, oldest first, and the new
// line exactly once, after them - whichever of the two got the lock first.
//
//vf:sched
//vf:switches quick=3 thorough=4
//vf:paths quick=800000 thorough=8000000
//vf:unwind 16
//vf:bound threads RegisterHandler || Write on a ring of size 3 holding 2 lines; the ring's fields and the monitor's record are racy locations
//vf:nonative
func VfC29_RingConcurrent() {
	l := NewLogWriter(3)
	l.Write([]byte("b1\n"))
	l.Write([]byte("b2\n"))
	h := &vfLogRec{}
	vfRacy(l)
	vfGo(func() { l.Write([]byte("new\n")) })
	l.RegisterHandler(h)
	vfWaitThreads()
	vfReach("C29.ringconc.done")
	vfAssert("C29.ringconc.count", len(h.got) == 3)
	if len(h.got) == 3 {
		vfAssert("C29.ringconc.order", h.got[0] == "b1" && h.got[1] == "b2" && h.got[2] == "new")
	}
}
