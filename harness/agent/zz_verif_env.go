//go:build verif

package agent

// Shared recorders and stubs of the agent-package harnesses.

import "github.com/hashicorp/memberlist"

type vfSentRec struct {
	hdr responseHeader
	obj any
}

var vfSent []vfSentRec

// vfStubSend replaces IPCClient.Send (msgpack framing + socket): records header and body.
func vfStubSend(c *IPCClient, header *responseHeader, obj any) error {
	vfSent = append(vfSent, vfSentRec{*header, obj})
	return nil
}

func vfStubMlCreate(conf *memberlist.Config) (*memberlist.Memberlist, error) { return nil, nil }

var vfCommands = [21]string{handshakeCommand, authCommand, eventCommand, forceLeaveCommand, joinCommand, membersCommand,
	membersFilteredCommand, streamCommand, stopCommand, monitorCommand, leaveCommand, installKeyCommand, useKeyCommand,
	removeKeyCommand, listKeysCommand, tagsCommand, queryCommand, respondCommand, statsCommand, getCoordinateCommand, "no-such-command"}

