//go:build verif

package agent

import (
	"errors"
	"time"

	"github.com/hashicorp/memberlist"

	"github.com/hashicorp/serf/serf"
)

// C25: RPC replies and stream records stay correlated and well-formed.

// vfStreamClient records what a stream sends.
type vfStreamClient struct {
	sent    []vfSentRec
	queries int
}

func (c *vfStreamClient) Send(h *responseHeader, obj any) error {
	c.sent = append(c.sent, vfSentRec{*h, obj})
	return nil
}

func (c *vfStreamClient) RegisterQuery(q *serf.Query) uint64 {
	c.queries++
	return uint64(c.queries)
}

// VfC25_QueryStream: the real queryResponseStream.Stream runs against an
// environment that delivers up to 2 replies (acks / responses from distinct
// nodes), after which Serf closes the query's channels (its timeout), while the
// stream's own completion timer fires at an arbitrary point. Every ack/response
// record must correspond to a reply really delivered, there is exactly one
// completion record, it is the last one, and every record carries the stream's
// sequence number.
//
//vf:sched
//vf:switches quick=2 thorough=3
//vf:paths quick=800000 thorough=8000000
//vf:unwind 8
//vf:bound threads stream || environment (<=2 replies then channel close); the completion timer fires at any scheduling decision
//vf:nonative
func VfC25_QueryStream() {
	c := &vfStreamClient{}
	seq := vfU64("seq")
	qs := newQueryResponseStream(c, seq, nil)
	resp := serf.VfNewQueryResponse(4, true, 7, 9, time.Hour)
	nack, nresp := 0, 0
	n := vfChoice("nreplies", 3)
	vfGo(func() {
		for i := 0; i < n; i++ {
			if vfBool("isAck") {
				nack++
				resp.VfDeliverAck([...]string{"n0", "n1"}[i])
			} else {
				nresp++
				resp.VfDeliverResponse([...]string{"n0", "n1"}[i], []byte{byte(i + 1)})
			}
		}
		resp.Close() // Serf's own timeout closes both channels
	})
	qs.Stream(resp)
	vfWaitThreads()
	vfReach("C25.qstream.done")
	acks, resps, dones, others := 0, 0, 0, 0
	for k, r := range c.sent {
		vfAssert("C25.qstream.seq", r.hdr.Seq == seq && r.hdr.Error == "")
		rec, ok := r.obj.(*queryRecord)
		vfAssert("C25.qstream.record", ok)
		if !ok {
			continue
		}
		switch rec.Type {
		case queryRecordAck:
			acks++
			vfAssert("C25.qstream.ack.real", rec.From == "n0" || rec.From == "n1")
		case queryRecordResponse:
			resps++
			vfAssert("C25.qstream.response.real", (rec.From == "n0" || rec.From == "n1") && len(rec.Payload) == 1)
		case queryRecordDone:
			dones++
			vfAssert("C25.qstream.done.last", k == len(c.sent)-1)
		default:
			others++
		}
	}
	vfAssert("C25.qstream.kinds", others == 0)
	vfAssert("C25.qstream.done.once", dones == 1)
	vfAssert("C25.qstream.only.delivered", acks <= nack && resps <= nresp)
}

// VfC25_EventStream: HandleEvent + stream with a 2-slot buffer: three events of
// symbolic kind/name against the filters "user:deploy" and "member-join"; only
// matching events are streamed, in order, each at most once; a matching event
// is missing only if the buffer was full when it arrived; every record carries
// the stream's sequence number.
//
//vf:sched
//vf:switches quick=2 thorough=3
//vf:paths quick=800000 thorough=8000000
//vf:unwind 24
//vf:bound threads producer (3 events) || stream consumer; buffer of 2
//vf:nonative
func VfC25_EventStream() {
	c := &vfStreamClient{}
	seq := vfU64("seq")
	var filters []EventFilter
	switch vfChoice("filters", 3) {
	case 0:
		filters = ParseEventFilter("user:deploy,member-join")
	case 1:
		filters = ParseEventFilter("user,user:deploy") // overlapping filters
	case 2:
		filters = ParseEventFilter("*")
	}
	es := &eventStream{client: c, eventCh: make(chan serf.Event, 2), filters: filters, seq: seq}
	vfGo(func() { es.stream() })
	var match, dropped [3]bool
	for i := 0; i < 3; i++ {
		var e serf.Event
		switch vfChoice("ekind", 4) {
		case 0:
			e = serf.UserEvent{LTime: serf.LamportTime(i + 1), Name: "deploy"}
		case 1:
			e = serf.UserEvent{LTime: serf.LamportTime(i + 1), Name: "other"}
		case 2:
			e = serf.MemberEvent{Type: serf.EventMemberJoin, Members: []serf.Member{{Name: "m", Status: serf.StatusAlive, Tags: map[string]string{"i": string(rune('0' + i))}}}}
		case 3:
			e = serf.MemberEvent{Type: serf.EventMemberLeave, Members: []serf.Member{{Name: "m", Status: serf.StatusLeft, Tags: map[string]string{"i": string(rune('0' + i))}}}}
		}
		for _, f := range filters {
			if f.Invoke(e) {
				match[i] = true
			}
		}
		full := len(es.eventCh) == cap(es.eventCh)
		es.HandleEvent(e)
		dropped[i] = match[i] && full
	}
	for len(es.eventCh) > 0 {
		vfYieldTo()
	}
	es.Stop()
	vfWaitThreads()
	vfReach("C25.estream.done")
	// the records, mapped back to event indices
	last := -1
	var seen [3]int
	for _, r := range c.sent {
		vfAssert("C25.estream.seq", r.hdr.Seq == seq && r.hdr.Error == "")
		idx := -1
		switch rec := r.obj.(type) {
		case *userEventRecord:
			idx = int(rec.LTime) - 1
		case *memberEventRecord:
			if len(rec.Members) == 1 {
				idx = int(rec.Members[0].Tags["i"][0] - '0')
			}
		}
		vfAssert("C25.estream.known", idx >= 0 && idx < 3)
		if idx < 0 || idx >= 3 {
			continue
		}
		seen[idx]++
		vfAssert("C25.estream.only.matching", match[idx])
		vfAssert("C25.estream.order", idx > last)
		last = idx
	}
	for i := 0; i < 3; i++ {
		vfAssert("C25.estream.atmostonce", seen[i] <= 1)
		if match[i] && !dropped[i] {
			vfAssert("C25.estream.delivered.unless.overflow", seen[i] == 1)
		}
	}
}

// ---- reply headers carry the request's sequence number -----------------------

func vfSymErr(tag string) error {
	if vfBool(tag) {
		return errors.New("failed")
	}
	return nil
}

func vfAgUserEvent(a *Agent, name string, payload []byte, coalesce bool) error { return vfSymErr("agent.err") }
func vfAgForceLeave(a *Agent, node string) error                               { return vfSymErr("agent.err") }
func vfAgJoin(a *Agent, addrs []string, replay bool) (int, error)              { return int(vfU8("agent.n")), vfSymErr("agent.err") }
func vfAgKey(a *Agent, key string) (*serf.KeyResponse, error) {
	return &serf.KeyResponse{Messages: map[string]string{}, NumNodes: 1}, vfSymErr("agent.err")
}
func vfAgListKeys(a *Agent) (*serf.KeyResponse, error) {
	return &serf.KeyResponse{Messages: map[string]string{}, Keys: map[string]int{}, PrimaryKeys: map[string]int{}, NumNodes: 1}, vfSymErr("agent.err")
}
func vfAgErr(a *Agent) error { return vfSymErr("agent.err") }
func vfAgQuery(a *Agent, name string, payload []byte, params *serf.QueryParam) (*serf.QueryResponse, error) {
	if vfBool("agent.err") {
		return nil, errors.New("failed")
	}
	return serf.VfNewQueryResponse(2, params.RequestAck, 3, 4, time.Hour), nil
}
func vfAgStats(a *Agent) map[string]map[string]string { return map[string]map[string]string{"agent": {"name": "self"}} }
var vfRegCalls int

func vfAgReg(a *Agent, eh EventHandler) { vfRegCalls++ }
func vfAgSetTags(a *Agent, tags map[string]string) error { return vfSymErr("agent.err") }

func vfStubEncodeTagsSmall(s *serf.Serf, tags map[string]string) []byte { return []byte{255} }

// VfC25_Seq: every command handler (real bodies; the agent operations behind
// them replaced by stubs with arbitrary outcome) answers with the sequence
// number of the request, exactly once, whatever the outcome; a body that does
// not decode ends the connection without a reply.
//
//vf:override (*github.com/hashicorp/serf/cmd/serf/command/agent.Agent).UserEvent = github.com/hashicorp/serf/cmd/serf/command/agent.vfAgUserEvent
//vf:override (*github.com/hashicorp/serf/cmd/serf/command/agent.Agent).ForceLeave = github.com/hashicorp/serf/cmd/serf/command/agent.vfAgForceLeave
//vf:override (*github.com/hashicorp/serf/cmd/serf/command/agent.Agent).ForceLeavePrune = github.com/hashicorp/serf/cmd/serf/command/agent.vfAgForceLeave
//vf:override (*github.com/hashicorp/serf/cmd/serf/command/agent.Agent).Join = github.com/hashicorp/serf/cmd/serf/command/agent.vfAgJoin
//vf:override (*github.com/hashicorp/serf/cmd/serf/command/agent.Agent).InstallKey = github.com/hashicorp/serf/cmd/serf/command/agent.vfAgKey
//vf:override (*github.com/hashicorp/serf/cmd/serf/command/agent.Agent).UseKey = github.com/hashicorp/serf/cmd/serf/command/agent.vfAgKey
//vf:override (*github.com/hashicorp/serf/cmd/serf/command/agent.Agent).RemoveKey = github.com/hashicorp/serf/cmd/serf/command/agent.vfAgKey
//vf:override (*github.com/hashicorp/serf/cmd/serf/command/agent.Agent).ListKeys = github.com/hashicorp/serf/cmd/serf/command/agent.vfAgListKeys
//vf:override (*github.com/hashicorp/serf/cmd/serf/command/agent.Agent).Leave = github.com/hashicorp/serf/cmd/serf/command/agent.vfAgErr
//vf:override (*github.com/hashicorp/serf/cmd/serf/command/agent.Agent).Shutdown = github.com/hashicorp/serf/cmd/serf/command/agent.vfAgErr
//vf:override (*github.com/hashicorp/serf/cmd/serf/command/agent.Agent).Query = github.com/hashicorp/serf/cmd/serf/command/agent.vfAgQuery
//vf:override (*github.com/hashicorp/serf/cmd/serf/command/agent.Agent).Stats = github.com/hashicorp/serf/cmd/serf/command/agent.vfAgStats
//vf:override (*github.com/hashicorp/serf/cmd/serf/command/agent.Agent).RegisterEventHandler = github.com/hashicorp/serf/cmd/serf/command/agent.vfAgReg
//vf:override (*github.com/hashicorp/serf/cmd/serf/command/agent.Agent).DeregisterEventHandler = github.com/hashicorp/serf/cmd/serf/command/agent.vfAgReg
//vf:override (*github.com/hashicorp/serf/cmd/serf/command/agent.Agent).SetTags = github.com/hashicorp/serf/cmd/serf/command/agent.vfAgSetTags
//vf:override (*github.com/hashicorp/serf/cmd/serf/command/agent.IPCClient).Send = github.com/hashicorp/serf/cmd/serf/command/agent.vfStubSend
//vf:override github.com/hashicorp/memberlist.Create = github.com/hashicorp/serf/cmd/serf/command/agent.vfStubMlCreate
//vf:override (*github.com/hashicorp/serf/serf.Serf).encodeTags = github.com/hashicorp/serf/cmd/serf/command/agent.vfStubEncodeTagsSmall
//vf:unwind 24
//vf:paths quick=400000 thorough=4000000
//vf:bound inputs each of the 20 commands once on a handshaken connection, symbolic 64-bit sequence number, well-formed or undecodable body, agent operation succeeding or failing
//vf:stub Agent operations (join, leave, keys, query, ...) -> arbitrary result; IPCClient.Send -> recorder; msgpack decoder -> queue; memberlist.Create -> nil
//vf:nonative
func VfC25_Seq() {
	vfSent = nil
	conf := &serf.Config{NodeName: "self", ProtocolVersion: 5, EventBuffer: 4, QueryBuffer: 4, DisableCoordinates: false,
		Tags: map[string]string{"a": "1"}, MemberlistConfig: &memberlist.Config{Name: "self"}}
	s, err := serf.Create(conf)
	vfAssert("C25.seq.setup", err == nil && s != nil)
	a := &Agent{conf: conf, agentConf: &Config{}, serf: s}
	i := &AgentIPC{agent: a, logWriter: NewLogWriter(4)}
	c := &IPCClient{name: "c", version: 1, eventStreams: map[uint64]*eventStream{}, pendingQueries: map[uint64]*serf.Query{}}
	k := vfChoice("cmd", 20)
	cmd := vfCommands[k]
	malformed := vfBool("malformed")
	hasBody := !(cmd == membersCommand || cmd == leaveCommand || cmd == listKeysCommand || cmd == statsCommand)
	if malformed {
		vfQueueDecode(&vfSentRec{})
	} else {
		switch cmd {
		case handshakeCommand:
			c.version = 0
			vfQueueDecode(&handshakeRequest{Version: 1})
		case authCommand:
			vfQueueDecode(&authRequest{AuthKey: "x"})
		case eventCommand:
			vfQueueDecode(&eventRequest{Name: "e"})
		case forceLeaveCommand:
			vfQueueDecode(&forceLeaveRequest{Node: "n", Prune: vfBool("prune")})
		case joinCommand:
			vfQueueDecode(&joinRequest{Existing: []string{"p"}})
		case membersFilteredCommand:
			vfQueueDecode(&membersFilteredRequest{Name: "se.*"})
		case installKeyCommand, useKeyCommand, removeKeyCommand:
			vfQueueDecode(&keyRequest{Key: "k"})
		case streamCommand:
			vfQueueDecode(&streamRequest{Type: "user"})
		case monitorCommand:
			vfQueueDecode(&monitorRequest{LogLevel: "debug"})
		case stopCommand:
			vfQueueDecode(&stopRequest{Stop: 5})
		case tagsCommand:
			vfQueueDecode(&tagsRequest{Tags: map[string]string{"b": "2"}})
		case queryCommand:
			vfQueueDecode(&queryRequest{Name: "q", RequestAck: vfBool("ack")})
		case respondCommand:
			vfQueueDecode(&respondRequest{ID: 77})
		case getCoordinateCommand:
			vfQueueDecode(&coordinateRequest{Node: "self"})
		}
	}
	seq := vfU64("seq")
	herr := i.handleRequest(c, &requestHeader{Command: cmd, Seq: seq})
	vfReach("C25.seq.done")
	for _, r := range vfSent {
		vfAssert("C25.seq.echo", r.hdr.Seq == seq)
	}
	if malformed && hasBody {
		vfAssert("C25.seq.malformed.ends", herr != nil && len(vfSent) == 0)
	} else {
		vfAssert("C25.seq.exactly.one.reply", len(vfSent) == 1)
	}
}

// VfC25_StreamRequest: a stream request is either acknowledged and registered,
// or refused and then leaves nothing behind: no stream under its sequence
// number (so no record can ever be sent under a number that belongs to no
// acknowledged stream) and no handler registered with the agent.
//
//vf:override (*github.com/hashicorp/serf/cmd/serf/command/agent.Agent).UserEvent = github.com/hashicorp/serf/cmd/serf/command/agent.vfAgUserEvent
//vf:override (*github.com/hashicorp/serf/cmd/serf/command/agent.Agent).ForceLeave = github.com/hashicorp/serf/cmd/serf/command/agent.vfAgForceLeave
//vf:override (*github.com/hashicorp/serf/cmd/serf/command/agent.Agent).ForceLeavePrune = github.com/hashicorp/serf/cmd/serf/command/agent.vfAgForceLeave
//vf:override (*github.com/hashicorp/serf/cmd/serf/command/agent.Agent).Join = github.com/hashicorp/serf/cmd/serf/command/agent.vfAgJoin
//vf:override (*github.com/hashicorp/serf/cmd/serf/command/agent.Agent).InstallKey = github.com/hashicorp/serf/cmd/serf/command/agent.vfAgKey
//vf:override (*github.com/hashicorp/serf/cmd/serf/command/agent.Agent).UseKey = github.com/hashicorp/serf/cmd/serf/command/agent.vfAgKey
//vf:override (*github.com/hashicorp/serf/cmd/serf/command/agent.Agent).RemoveKey = github.com/hashicorp/serf/cmd/serf/command/agent.vfAgKey
//vf:override (*github.com/hashicorp/serf/cmd/serf/command/agent.Agent).ListKeys = github.com/hashicorp/serf/cmd/serf/command/agent.vfAgListKeys
//vf:override (*github.com/hashicorp/serf/cmd/serf/command/agent.Agent).Leave = github.com/hashicorp/serf/cmd/serf/command/agent.vfAgErr
//vf:override (*github.com/hashicorp/serf/cmd/serf/command/agent.Agent).Shutdown = github.com/hashicorp/serf/cmd/serf/command/agent.vfAgErr
//vf:override (*github.com/hashicorp/serf/cmd/serf/command/agent.Agent).Query = github.com/hashicorp/serf/cmd/serf/command/agent.vfAgQuery
//vf:override (*github.com/hashicorp/serf/cmd/serf/command/agent.Agent).Stats = github.com/hashicorp/serf/cmd/serf/command/agent.vfAgStats
//vf:override (*github.com/hashicorp/serf/cmd/serf/command/agent.Agent).RegisterEventHandler = github.com/hashicorp/serf/cmd/serf/command/agent.vfAgReg
//vf:override (*github.com/hashicorp/serf/cmd/serf/command/agent.Agent).DeregisterEventHandler = github.com/hashicorp/serf/cmd/serf/command/agent.vfAgReg
//vf:override (*github.com/hashicorp/serf/cmd/serf/command/agent.Agent).SetTags = github.com/hashicorp/serf/cmd/serf/command/agent.vfAgSetTags
//vf:override (*github.com/hashicorp/serf/cmd/serf/command/agent.IPCClient).Send = github.com/hashicorp/serf/cmd/serf/command/agent.vfStubSend
//vf:override github.com/hashicorp/memberlist.Create = github.com/hashicorp/serf/cmd/serf/command/agent.vfStubMlCreate
//vf:override (*github.com/hashicorp/serf/serf.Serf).encodeTags = github.com/hashicorp/serf/cmd/serf/command/agent.vfStubEncodeTagsSmall
//vf:unwind 24
//vf:bound inputs filter list from {user | user:deploy,member-joined (one valid, one invalid entry) | bogus | *}; a stream on the same sequence number exists or not
//vf:stub as VfC25_Seq
//vf:nonative
func VfC25_StreamRequest() {
	vfSent = nil
	vfRegCalls = 0
	conf := &serf.Config{NodeName: "self", ProtocolVersion: 5, EventBuffer: 4, QueryBuffer: 4, DisableCoordinates: false,
		Tags: map[string]string{"a": "1"}, MemberlistConfig: &memberlist.Config{Name: "self"}}
	s, err := serf.Create(conf)
	vfAssert("C25.streamreq.setup", err == nil && s != nil)
	a := &Agent{conf: conf, agentConf: &Config{}, serf: s}
	i := &AgentIPC{agent: a, logWriter: NewLogWriter(4)}
	c := &IPCClient{name: "c", version: 1, eventStreams: map[uint64]*eventStream{}, pendingQueries: map[uint64]*serf.Query{}}
	seq := uint64(7)
	var old *eventStream
	if vfBool("exists") {
		old = newEventStream(c, ParseEventFilter("*"), seq, nil)
		c.eventStreams[seq] = old
	}
	k := vfChoice("filter", 4)
	typ := [4]string{"user", "user:deploy,member-joined", "bogus", "*"}[k]
	valid := k == 0 || k == 3
	vfQueueDecode(&streamRequest{Type: typ})
	herr := i.handleRequest(c, &requestHeader{Command: streamCommand, Seq: seq})
	vfReach("C25.streamreq.done")
	vfAssert("C25.streamreq.one.reply", herr == nil && len(vfSent) == 1)
	if len(vfSent) != 1 {
		return
	}
	refused := vfSent[0].hdr.Error != ""
	vfAssert("C25.streamreq.refused.iff", refused == (!valid || old != nil))
	cur := c.eventStreams[seq]
	if refused {
		vfAssert("C25.streamreq.refused.leaves.nothing", cur == old && vfRegCalls == 0)
	} else {
		vfAssert("C25.streamreq.accepted.registered", cur != nil && cur != old && vfRegCalls == 1)
	}
}
