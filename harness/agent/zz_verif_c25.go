//go:build verif

package agent

import (
	"time"

	"github.com/hashicorp/serf/serf"
)

// C25: RPC replies and stream records stay correlated and well-formed.

// vfStreamClient records what a stream sends.
type vfStreamClient struct {
	sent    []vfSentRec
	queries int
}

func (c *vfStreamClient) Send(h *responseHeader, obj any) error {
	c.sent = append(c.sent, vfSentRec{*h, obj})
	return nil
}

func (c *vfStreamClient) RegisterQuery(q *serf.Query) uint64 {
	c.queries++
	return uint64(c.queries)
}

// VfC25_QueryStream: the real queryResponseStream.Stream runs against an
// environment that delivers up to 2 replies (acks / responses from distinct
// nodes), after which Serf closes the query's channels (its timeout), while the
// stream's own completion timer fires at an arbitrary point. Every ack/response
// record must correspond to a reply really delivered, there is exactly one
// completion record, it is the last one, and every record carries the stream's
// sequence number.
//
//vf:sched
//vf:switches quick=2 thorough=3
//vf:paths quick=800000 thorough=8000000
//vf:unwind 8
//vf:bound threads stream || environment (<=2 replies then channel close); the completion timer fires at any scheduling decision
//vf:nonative
func VfC25_QueryStream() {
	c := &vfStreamClient{}
	seq := vfU64("seq")
	qs := newQueryResponseStream(c, seq, nil)
	resp := serf.VfNewQueryResponse(4, true, 7, 9, time.Hour)
	nack, nresp := 0, 0
	n := vfChoice("nreplies", 3)
	vfGo(func() {
		for i := 0; i < n; i++ {
			if vfBool("isAck") {
				nack++
				resp.VfDeliverAck([...]string{"n0", "n1"}[i])
			} else {
				nresp++
				resp.VfDeliverResponse([...]string{"n0", "n1"}[i], []byte{byte(i + 1)})
			}
		}
		resp.Close() // Serf's own timeout closes both channels
	})
	qs.Stream(resp)
	vfWaitThreads()
	vfReach("C25.qstream.done")
	acks, resps, dones, others := 0, 0, 0, 0
	for k, r := range c.sent {
		vfAssert("C25.qstream.seq", r.hdr.Seq == seq && r.hdr.Error == "")
		rec, ok := r.obj.(*queryRecord)
		vfAssert("C25.qstream.record", ok)
		if !ok {
			continue
		}
		switch rec.Type {
		case queryRecordAck:
			acks++
			vfAssert("C25.qstream.ack.real", rec.From == "n0" || rec.From == "n1")
		case queryRecordResponse:
			resps++
			vfAssert("C25.qstream.response.real", (rec.From == "n0" || rec.From == "n1") && len(rec.Payload) == 1)
		case queryRecordDone:
			dones++
			vfAssert("C25.qstream.done.last", k == len(c.sent)-1)
		default:
			others++
		}
	}
	vfAssert("C25.qstream.kinds", others == 0)
	vfAssert("C25.qstream.done.once", dones == 1)
	vfAssert("C25.qstream.only.delivered", acks <= nack && resps <= nresp)
}

// VfC25_EventStream: HandleEvent + stream with a 2-slot buffer: three events of
// symbolic kind/name against the filters "user:deploy" and "member-join"; only
// matching events are streamed, in order, each at most once; a matching event
// is missing only if the buffer was full when it arrived; every record carries
// the stream's sequence number.
//
//vf:sched
//vf:switches quick=2 thorough=3
//vf:paths quick=800000 thorough=8000000
//vf:unwind 24
//vf:bound threads producer (3 events) || stream consumer; buffer of 2
//vf:nonative
func VfC25_EventStream() {
	c := &vfStreamClient{}
	seq := vfU64("seq")
	var filters []EventFilter
	switch vfChoice("filters", 3) {
	case 0:
		filters = ParseEventFilter("user:deploy,member-join")
	case 1:
		filters = ParseEventFilter("user,user:deploy") // overlapping filters
	case 2:
		filters = ParseEventFilter("*")
	}
	es := &eventStream{client: c, eventCh: make(chan serf.Event, 2), filters: filters, seq: seq}
	vfGo(func() { es.stream() })
	var match, dropped [3]bool
	for i := 0; i < 3; i++ {
		var e serf.Event
		switch vfChoice("ekind", 4) {
		case 0:
			e = serf.UserEvent{LTime: serf.LamportTime(i + 1), Name: "deploy"}
		case 1:
			e = serf.UserEvent{LTime: serf.LamportTime(i + 1), Name: "other"}
		case 2:
			e = serf.MemberEvent{Type: serf.EventMemberJoin, Members: []serf.Member{{Name: "m", Status: serf.StatusAlive, Tags: map[string]string{"i": string(rune('0' + i))}}}}
		case 3:
			e = serf.MemberEvent{Type: serf.EventMemberLeave, Members: []serf.Member{{Name: "m", Status: serf.StatusLeft, Tags: map[string]string{"i": string(rune('0' + i))}}}}
		}
		for _, f := range filters {
			if f.Invoke(e) {
				match[i] = true
			}
		}
		full := len(es.eventCh) == cap(es.eventCh)
		es.HandleEvent(e)
		dropped[i] = match[i] && full
	}
	for len(es.eventCh) > 0 {
		vfYieldTo()
	}
	es.Stop()
	vfWaitThreads()
	vfReach("C25.estream.done")
	// the records, mapped back to event indices
	last := -1
	var seen [3]int
	for _, r := range c.sent {
		vfAssert("C25.estream.seq", r.hdr.Seq == seq && r.hdr.Error == "")
		idx := -1
		switch rec := r.obj.(type) {
		case *userEventRecord:
			idx = int(rec.LTime) - 1
		case *memberEventRecord:
			if len(rec.Members) == 1 {
				idx = int(rec.Members[0].Tags["i"][0] - '0')
			}
		}
		vfAssert("C25.estream.known", idx >= 0 && idx < 3)
		if idx < 0 || idx >= 3 {
			continue
		}
		seen[idx]++
		vfAssert("C25.estream.only.matching", match[idx])
		vfAssert("C25.estream.order", idx > last)
		last = idx
	}
	for i := 0; i < 3; i++ {
		vfAssert("C25.estream.atmostonce", seen[i] <= 1)
		if match[i] && !dropped[i] {
			vfAssert("C25.estream.delivered.unless.overflow", seen[i] == 1)
		}
	}
}
