//go:build verif

package agent

import (
	"errors"
	"io"
	"os"
	"time"
)

// C31 (reading files in order equals merging them one by one): ReadConfigPaths
// over an abstract directory tree. os.Open / File.Stat / File.Readdir /
// File.Close and DecodeConfig are replaced by a small in-memory tree whose
// files carry symbolic configurations.

type vfNode struct {
	dir      bool
	cfg      *Config
	children []string // base names, unsorted
}

type vfFI struct {
	name string
	dir  bool
}

func (f vfFI) Name() string       { return f.name }
func (f vfFI) Size() int64        { return 0 }
func (f vfFI) Mode() os.FileMode  { return 0 }
func (f vfFI) ModTime() time.Time { return time.Time{} }
func (f vfFI) IsDir() bool        { return f.dir }
func (f vfFI) Sys() any           { return nil }

var (
	vfFS    map[string]*vfNode
	vfOpenF map[*os.File]string
)

func vfBase(p string) string {
	for i := len(p) - 1; i >= 0; i-- {
		if p[i] == '/' {
			return p[i+1:]
		}
	}
	return p
}

func vfOpen(name string) (*os.File, error) {
	if _, ok := vfFS[name]; !ok {
		return nil, errors.New("open " + name + ": no such file or directory")
	}
	f := &os.File{}
	vfOpenF[f] = name
	return f, nil
}

func vfFileStat(f *os.File) (os.FileInfo, error) {
	name := vfOpenF[f]
	return vfFI{name: vfBase(name), dir: vfFS[name].dir}, nil
}

func vfFileClose(f *os.File) error { return nil }

func vfFileReaddir(f *os.File, n int) ([]os.FileInfo, error) {
	name := vfOpenF[f]
	var out []os.FileInfo
	for _, c := range vfFS[name].children {
		out = append(out, vfFI{name: c, dir: vfFS[name+"/"+c].dir})
	}
	return out, nil
}

func vfDecodeConfig(r io.Reader) (*Config, error) {
	f, ok := r.(*os.File)
	if !ok {
		return nil, errors.New("not a file")
	}
	n := vfFS[vfOpenF[f]]
	if n.cfg == nil {
		return nil, errors.New("not a configuration file")
	}
	return vfC31Copy(n.cfg), nil
}

// vfC31SmallConfig: a configuration whose compression switch is symbolic (it is
// the one setting that always comes from the later source), whose node name
// identifies the file (later wins) and whose join list records the merge order.
func vfC31SmallConfig(tag string) *Config {
	return &Config{EnableCompression: vfBool(tag + ".compress"), NodeName: tag, StartJoin: []string{tag},
		Tags: map[string]string{"k": tag, tag: "1"}}
}

// VfC31_ReadPaths: a path list of a file, a directory (absent | empty | only
// entries that are not configuration files | one | two configuration files,
// listed in arbitrary order plus a sub-directory and a non-JSON file) and
// another file equals the left fold of MergeConfig over the configuration
// files in path order, directory entries in lexical order.
//
//vf:unwind 40
//vf:paths quick=400000 thorough=4000000
//vf:override os.Open = github.com/hashicorp/serf/cmd/serf/command/agent.vfOpen
//vf:override (*os.File).Stat = github.com/hashicorp/serf/cmd/serf/command/agent.vfFileStat
//vf:override (*os.File).Close = github.com/hashicorp/serf/cmd/serf/command/agent.vfFileClose
//vf:override (*os.File).Readdir = github.com/hashicorp/serf/cmd/serf/command/agent.vfFileReaddir
//vf:override github.com/hashicorp/serf/cmd/serf/command/agent.DecodeConfig = github.com/hashicorp/serf/cmd/serf/command/agent.vfDecodeConfig
//vf:bound inputs up to 4 configuration files, each with a symbolic compression switch, a distinct node name, tag set and join address (so that order and last-writer are observable); directory shapes as listed
//vf:stub file system -> in-memory tree; DecodeConfig -> the configuration attached to the file (decoding itself is not the subject)
//vf:nonative
func VfC31_ReadPaths() {
	vfFS = map[string]*vfNode{}
	vfOpenF = map[*os.File]string{}
	var paths []string
	var order []*Config
	if vfBool("hasF1") {
		c := vfC31SmallConfig("f1")
		vfFS["/c/f1.json"] = &vfNode{cfg: c}
		paths = append(paths, "/c/f1.json")
		order = append(order, c)
	}
	switch vfChoice("dir", 5) {
	case 0:
	case 1:
		vfFS["/c/d"] = &vfNode{dir: true}
		paths = append(paths, "/c/d")
	case 2:
		vfFS["/c/d"] = &vfNode{dir: true, children: []string{"notes.txt", "sub"}}
		vfFS["/c/d/notes.txt"] = &vfNode{cfg: vfC31SmallConfig("txt")}
		vfFS["/c/d/sub"] = &vfNode{dir: true}
		paths = append(paths, "/c/d")
	case 3:
		ca := vfC31SmallConfig("da")
		vfFS["/c/d"] = &vfNode{dir: true, children: []string{"sub", "a.json"}}
		vfFS["/c/d/a.json"] = &vfNode{cfg: ca}
		vfFS["/c/d/sub"] = &vfNode{dir: true}
		paths = append(paths, "/c/d")
		order = append(order, ca)
	case 4:
		ca, cb := vfC31SmallConfig("da"), vfC31SmallConfig("db")
		// listed in reverse: the reader must sort
		vfFS["/c/d"] = &vfNode{dir: true, children: []string{"b.json", "notes.txt", "a.json"}}
		vfFS["/c/d/a.json"] = &vfNode{cfg: ca}
		vfFS["/c/d/b.json"] = &vfNode{cfg: cb}
		vfFS["/c/d/notes.txt"] = &vfNode{cfg: vfC31SmallConfig("txt")}
		paths = append(paths, "/c/d")
		order = append(order, ca, cb)
	}
	if vfBool("hasF2") {
		c := vfC31SmallConfig("f2")
		vfFS["/c/f2.json"] = &vfNode{cfg: c}
		paths = append(paths, "/c/f2.json")
		order = append(order, c)
	}
	got, err := ReadConfigPaths(paths)
	vfReach("C31.paths.done")
	vfAssert("C31.paths.ok", err == nil && got != nil)
	want := new(Config)
	for _, c := range order {
		want = MergeConfig(want, vfC31Copy(c))
	}
	if got != nil {
		vfC31AllFields("C31.paths", got, want)
	}
}
