//go:build verif

package agent

import (
	"regexp"

	"github.com/hashicorp/serf/serf"
)

// C26: filtered member listings match whole names, statuses and tag values.
//
// Patterns come from a finite family (they are compiled by Go's own regexp
// package); the subjects (member name, tag value) are symbolic ASCII strings of
// bounded length, the status is any of the five statuses. The real
// filterMembers is compared with the documented rule: a member is listed iff
// for every requested field the WHOLE value is in the language of the pattern;
// an invalid pattern yields an error and no list.

var vfC26Patterns = [...]string{
	"a", "ab", "a|b", "ab|c", "(a|b)c", "a?", "[ab]+", ".*", "a.*", ".", "a|", "|a", "(a)|(b)", "a+b*", "[^a]", "\\w+",
	// invalid ones
	"(", "[", "*a", "a)|(b", ")", "a{2,1}",
}

// vfFull is the specification: (pattern valid, whole subject matches).
func vfFull(pat, subj string) (bool, bool) {
	if _, err := regexp.Compile(pat); err != nil {
		return false, false
	}
	re, err := regexp.Compile("^(?:" + pat + ")$")
	if err != nil {
		return false, false
	}
	return true, re.MatchString(subj)
}

func vfC26Status() serf.MemberStatus {
	switch vfChoice("status", 5) {
	case 0:
		return serf.StatusNone
	case 1:
		return serf.StatusAlive
	case 2:
		return serf.StatusLeaving
	case 3:
		return serf.StatusLeft
	}
	return serf.StatusFailed
}

func vfC26Check(pfx string, res []serf.Member, err error, valid, want bool, m serf.Member) {
	vfReach(pfx + ".done")
	if !valid {
		vfAssert(pfx+".invalid.error", err != nil && res == nil)
		return
	}
	vfAssert(pfx+".valid.noerror", err == nil)
	vfAssert(pfx+".listed.iff.wholematch", (len(res) == 1) == want)
	if len(res) == 1 {
		vfAssert(pfx+".listed.same", res[0].Name == m.Name && res[0].Status == m.Status)
	}
}

// VfC26_Name: the name filter.
//
//vf:unwind 12
//vf:bound inputs pattern from a family of 22 (16 valid incl. alternations, classes, repetition, empty alternatives; 6 invalid); member name: any ASCII string of length 0..3 (thorough 0..4)
//vf:stub regexp: patterns compiled by the real regexp/syntax; MatchString on symbolic subjects encoded exactly (NFA simulation over the bounded byte string)
//vf:outside symbolic patterns; non-ASCII subjects; subjects longer than the bound
func VfC26_Name() {
	i := &AgentIPC{}
	pat := vfC26Patterns[vfChoice("pat", len(vfC26Patterns))]
	m := serf.Member{Name: vfString("name", 3+vfTier()), Status: serf.StatusAlive}
	res, err := i.filterMembers([]serf.Member{m}, nil, "", pat)
	valid, match := vfFull(pat, m.Name)
	vfC26Check("C26.name", res, err, valid, match, m)
}

// VfC26_Status: the status filter against every status.
//
//vf:unwind 12
//vf:bound inputs pattern from {alive, left|failed, alive|left, a.*, .*ing, l, failed|, (, "" (no filter)}; status any of the 5
func VfC26_Status() {
	i := &AgentIPC{}
	pats := [...]string{"alive", "left|failed", "alive|left", "a.*", ".*ing", "l", "failed|", "(", ""}
	pat := pats[vfChoice("pat", len(pats))]
	m := serf.Member{Name: "n", Status: vfC26Status()}
	res, err := i.filterMembers([]serf.Member{m}, nil, pat, "")
	valid, match := vfFull(pat, m.Status.String())
	if pat == "" {
		valid, match = true, true // an empty status means "not requested"
	}
	vfC26Check("C26.status", res, err, valid, match, m)
}

// VfC26_Tag: one tag filter; the member has the tag (any ASCII value of length
// 0..2) or lacks it (counts as empty).
//
//vf:unwind 12
//vf:bound inputs pattern family as VfC26_Name plus the empty pattern; tag present with any ASCII value of length 0..2 (thorough 0..3), or absent
func VfC26_Tag() {
	i := &AgentIPC{}
	k := vfChoice("pat", len(vfC26Patterns)+1)
	pat := ""
	if k < len(vfC26Patterns) {
		pat = vfC26Patterns[k]
	}
	m := serf.Member{Name: "n", Status: serf.StatusAlive, Tags: map[string]string{"dc": "x"}}
	val := ""
	if vfBool("hasTag") {
		val = vfString("val", 2+vfTier())
		m.Tags["role"] = val
	}
	res, err := i.filterMembers([]serf.Member{m}, map[string]string{"role": pat}, "", "")
	valid, match := vfFull(pat, val)
	vfC26Check("C26.tag", res, err, valid, match, m)
}

// VfC26_All: all three filters together over two members: the result is exactly
// the sub-list of members passing every requested filter, in order.
//
//vf:unwind 12
//vf:bound inputs 2 members (names of 1 symbolic ASCII byte, statuses from {alive,failed}, tag value 1 symbolic byte or absent); name pattern from {a|b, "" (none)}, status pattern from {alive|left, ""}, tag pattern from {[ab]+, none}
func VfC26_All() {
	i := &AgentIPC{}
	namePat, statusPat := "", ""
	if vfBool("useName") {
		namePat = "a|b"
	}
	if vfBool("useStatus") {
		statusPat = "alive|left"
	}
	var tags map[string]string
	useTag := vfBool("useTag")
	if useTag {
		tags = map[string]string{"role": "[ab]+"}
	}
	var ms []serf.Member
	var want []bool
	for k := 0; k < 2; k++ {
		m := serf.Member{Name: string(vfFixedBytes("name", 1)), Status: serf.StatusAlive, Tags: map[string]string{}}
		if vfBool("failed") {
			m.Status = serf.StatusFailed
		}
		val := ""
		if vfBool("hasTag") {
			val = string(vfFixedBytes("val", 1))
			m.Tags["role"] = val
		}
		ok := true
		if namePat != "" {
			_, mt := vfFull(namePat, m.Name)
			ok = vfAnd(ok, mt)
		}
		if statusPat != "" {
			_, mt := vfFull(statusPat, m.Status.String())
			ok = vfAnd(ok, mt)
		}
		if useTag {
			_, mt := vfFull("[ab]+", val)
			ok = vfAnd(ok, mt)
		}
		ms = append(ms, m)
		want = append(want, ok)
	}
	res, err := i.filterMembers(ms, tags, statusPat, namePat)
	vfReach("C26.all.done")
	vfAssert("C26.all.noerror", err == nil)
	vfAssert("C26.all.count", len(res) == vfB2I(want[0])+vfB2I(want[1]))
	// order preserved
	if len(res) == 2 {
		vfAssert("C26.all.order", res[0].Name == ms[0].Name && res[1].Name == ms[1].Name)
	}
	if len(res) == 1 {
		vfAssert("C26.all.which", vfOr(vfAnd(want[0], res[0].Name == ms[0].Name), vfAnd(want[1], res[0].Name == ms[1].Name)))
	}
}
