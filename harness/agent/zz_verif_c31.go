//go:build verif

package agent

// C31: configuration sources layer predictably without side effects.
// The per-field helpers (vfC31Set, vfC31Expect, vfC31Equal, vfC31Copy) are
// generated from the current Config struct on every run (engine/gen_c31.go).

func vfC31Map(tag string) map[string]string {
	switch vfChoice(tag+".shape", 4) {
	case 0:
		return nil
	case 1:
		return map[string]string{}
	case 2:
		return map[string]string{"k": string(vfFixedBytes(tag+".k", 1))}
	}
	return map[string]string{"k": string(vfFixedBytes(tag+".k", 1)), tag: string(vfFixedBytes(tag+".own", 1))}
}

func vfC31List(tag string) []string {
	n := vfChoice(tag+".len", 3)
	var l []string
	for i := 0; i < n; i++ {
		l = append(l, string(vfFixedBytes(tag+".e", 1)))
	}
	return l
}

func vfC31MapEq(x, y map[string]string) bool {
	ok := len(x) == len(y)
	for k, v := range x {
		w, has := y[k]
		ok = vfAnd(ok, has)
		if has {
			ok = vfAnd(ok, v == w)
		}
	}
	return ok
}

func vfC31ListEq(x, y []string) bool {
	if len(x) != len(y) {
		return false
	}
	ok := true
	for i := range x {
		ok = vfAnd(ok, x[i] == y[i])
	}
	return ok
}

// vfC31AllFields asserts got == want field by field (one assertion id per field).
func vfC31AllFields(pfx string, got, want *Config) {
	for k := 0; k < vfC31NFields; k++ {
		vfAssert(pfx+"."+vfC31FieldNames[k], vfC31FieldEq(got, want, k))
	}
}

// VfC31_Fields: for every field of Config (one at a time symbolic in both
// sources, all others at their zero value): the merged value follows the
// documented rule for the field's kind, every other field stays zero, and
// neither input is modified (map contents and list elements included).
//
//vf:unwind 80
//vf:bound inputs each Config field in turn (45 today) symbolic in both sources: strings empty or 1 symbolic byte, ints/durations all 64-bit values, maps nil/empty/1-2 entries with a shared key, lists of 0-2 elements
//vf:outside the five *Raw helper strings (parsed elsewhere, not merged); two different fields symbolic at once (VfC31_Over: one symbolic field against a fully populated source)
func VfC31_Fields() {
	k := vfChoice("field", vfC31NFields)
	a, b := &Config{}, &Config{}
	vfC31Set(a, k, "a")
	vfC31Set(b, k, "b")
	a0, b0 := vfC31Copy(a), vfC31Copy(b)
	want := vfC31Expect(a0, b0)
	r := MergeConfig(a, b)
	vfReach("C31.fields.done")
	vfC31AllFields("C31.merge", r, want)
	vfAssert("C31.immutable.first", vfC31Equal(a, a0))
	vfAssert("C31.immutable.second", vfC31Equal(b, b0))
	// the result does not share mutable state with the inputs
	if r.Tags != nil {
		r.Tags["zz-probe"] = "1"
		vfAssert("C31.immutable.noalias", vfC31Equal(a, a0) && vfC31Equal(b, b0))
	}
}

// VfC31_Assoc: merging three sources is associative (compared semantically),
// evaluated on private copies so that a side effect of one grouping cannot hide
// in the other.
//
// VfC31_Over: two different settings at once. One source carries a fixed
// non-default value in EVERY field, the other sets one field (each in turn,
// symbolic); in both orders the merged value follows the per-field rule - in
// particular a later source that sets one setting leaves the earlier source's
// other settings (also those of the same nested block) alone.
//
//vf:unwind 80
//vf:bound inputs one source fully populated with fixed values, the other with one field (each of the 45 in turn) symbolic; both orders
func VfC31_Over() {
	k := vfChoice("field", vfC31NFields)
	full, one := &Config{}, &Config{}
	vfC31Fill(full)
	vfC31Set(one, k, "one")
	a, b := full, one
	if vfBool("fullIsLater") {
		a, b = one, full
	}
	a0, b0 := vfC31Copy(a), vfC31Copy(b)
	want := vfC31Expect(a0, b0)
	r := MergeConfig(a, b)
	vfReach("C31.over.done")
	vfC31AllFields("C31.over", r, want)
	vfAssert("C31.over.immutable.first", vfC31Equal(a, a0))
	vfAssert("C31.over.immutable.second", vfC31Equal(b, b0))
}

// VfC31_Shared: one earlier source layered under two different later sources.
// Its lists have spare capacity (as every slice built by append, or returned
// by an earlier merge, may have): the two results must not share storage, so
// the second merge leaves the first result as it was, and the shared source
// is unchanged.
//
//vf:unwind 80
//vf:bound inputs earlier source with the three list settings of 1 element and capacity 4; two later sources with lists of 0..2 symbolic elements
func VfC31_Shared() {
	mk := func(tag string) []string {
		l := make([]string, 0, 4)
		return append(l, tag)
	}
	a := &Config{EventHandlers: mk("ah"), StartJoin: mk("as"), RetryJoin: mk("ar")}
	b1 := &Config{EventHandlers: vfC31List("b1.h"), StartJoin: vfC31List("b1.s"), RetryJoin: vfC31List("b1.r")}
	b2 := &Config{EventHandlers: vfC31List("b2.h"), StartJoin: vfC31List("b2.s"), RetryJoin: vfC31List("b2.r")}
	a0 := vfC31Copy(a)
	r1 := MergeConfig(a, b1)
	keep := vfC31Copy(r1)
	r2 := MergeConfig(a, b2)
	vfReach("C31.shared.done")
	vfAssert("C31.shared.first.result.kept", vfC31Equal(r1, keep))
	vfAssert("C31.shared.source.kept", vfC31Equal(a, a0))
	vfAssert("C31.shared.second.result", vfC31Equal(r2, vfC31Expect(a0, b2)))
}

//vf:unwind 80
//vf:paths quick=400000 thorough=4000000
//vf:bound inputs each field in turn symbolic in three sources
func VfC31_Assoc() {
	k := vfChoice("field", vfC31NFields)
	a, b, c := &Config{}, &Config{}, &Config{}
	vfC31Set(a, k, "a")
	vfC31Set(b, k, "b")
	vfC31Set(c, k, "c")
	left := MergeConfig(MergeConfig(vfC31Copy(a), vfC31Copy(b)), vfC31Copy(c))
	right := MergeConfig(vfC31Copy(a), MergeConfig(vfC31Copy(b), vfC31Copy(c)))
	vfReach("C31.assoc.done")
	vfC31AllFields("C31.assoc", left, right)
	// and equals the documented rule applied twice
	want := vfC31Expect(vfC31Expect(a, b), c)
	vfC31AllFields("C31.assoc.rule", left, want)
}
