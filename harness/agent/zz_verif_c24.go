//go:build verif

package agent

// C24: RPC commands take effect only after handshake and authentication.
//
// handleRequest, handleHandshake and handleAuth are executed for real; the
// bodies of the other command handlers (subjects of C25/C26/C30) are replaced
// by an effect recorder, and IPCClient.Send by a reply recorder.

var vfEffects []uint64

func vfEffect2(i *AgentIPC, client *IPCClient, seq uint64) error {
	vfEffects = append(vfEffects, seq)
	return client.Send(&responseHeader{Seq: seq}, nil)
}

func vfEffect3(i *AgentIPC, client *IPCClient, command string, seq uint64) error {
	vfEffects = append(vfEffects, seq)
	return client.Send(&responseHeader{Seq: seq}, nil)
}

type vfC24Req struct {
	cmd       string
	version   int32
	key       string
	malformed bool
}

// vfC24Request picks an arbitrary request and queues its body for the decoder.
func vfC24Request() vfC24Req {
	r := vfC24Req{cmd: vfCommands[vfChoice("cmd", 21)]}
	r.malformed = vfBool("malformed")
	switch r.cmd {
	case handshakeCommand:
		r.version = vfI32("version")
		if r.malformed {
			vfQueueDecode(&authRequest{})
		} else {
			vfQueueDecode(&handshakeRequest{Version: r.version})
		}
	case authCommand:
		if vfBool("rightKey") {
			r.key = "k"
		} else {
			r.key = vfString("key", 1)
		}
		if r.malformed {
			vfQueueDecode(&handshakeRequest{})
		} else {
			vfQueueDecode(&authRequest{AuthKey: r.key})
		}
	}
	return r
}

// vfC24Step runs one request and checks the gate; returns whether the connection survives.
func vfC24Step(i *AgentIPC, c *IPCClient, seq uint64, pfx string) bool {
	r := vfC24Request()
	v0, a0 := c.version, c.didAuth
	ns, ne := len(vfSent), len(vfEffects)
	err := i.handleRequest(c, &requestHeader{Command: r.cmd, Seq: seq})
	eff := len(vfEffects) - ne
	replies := vfSent[ns:]
	vfReach(pfx + ".done")
	vfAssert(pfx+".atmostone.effect", eff <= 1)
	for _, rp := range replies {
		vfAssert(pfx+".reply.seq", rp.hdr.Seq == seq)
	}
	needHandshake := v0 == 0 && r.cmd != handshakeCommand
	needAuth := !needHandshake && i.authKey != "" && !a0 && r.cmd != authCommand && r.cmd != handshakeCommand
	if needHandshake {
		vfAssert(pfx+".handshake.gate.noeffect", eff == 0 && c.version == v0 && c.didAuth == a0)
		vfAssert(pfx+".handshake.gate.reply", len(replies) == 1 && replies[0].hdr.Error == handshakeRequired && replies[0].obj == nil)
		vfAssert(pfx+".handshake.gate.ends", err != nil)
	}
	if needAuth {
		vfAssert(pfx+".auth.gate.noeffect", eff == 0 && c.version == v0 && c.didAuth == a0)
		vfAssert(pfx+".auth.gate.reply", len(replies) == 1 && replies[0].hdr.Error == authRequired && replies[0].obj == nil)
	}
	if eff == 1 {
		vfAssert(pfx+".effect.only.when.allowed", v0 != 0 && (i.authKey == "" || a0) && r.cmd != handshakeCommand && r.cmd != authCommand && r.cmd != "no-such-command")
	}
	if c.version != v0 {
		vfAssert(pfx+".version.only.by.handshake", r.cmd == handshakeCommand && !r.malformed && v0 == 0 && c.version == r.version && r.version >= MinIPCVersion && r.version <= MaxIPCVersion)
	}
	if c.didAuth != a0 {
		vfAssert(pfx+".auth.only.by.key", r.cmd == authCommand && !r.malformed && !a0 && c.didAuth && r.key == i.authKey && v0 != 0)
	}
	if r.cmd == "no-such-command" && !needHandshake && !needAuth {
		vfAssert(pfx+".unknown.rejected", eff == 0 && len(replies) == 1 && replies[0].hdr.Error != "")
	}
	return err == nil
}

func vfC24IPC() *AgentIPC {
	i := &AgentIPC{}
	if vfBool("authConfigured") {
		i.authKey = "k"
	}
	return i
}

// VfC24_Gate: one arbitrary request against an arbitrary connection state.
//
//vf:override (*github.com/hashicorp/serf/cmd/serf/command/agent.AgentIPC).handleEvent = github.com/hashicorp/serf/cmd/serf/command/agent.vfEffect2
//vf:override (*github.com/hashicorp/serf/cmd/serf/command/agent.AgentIPC).handleForceLeave = github.com/hashicorp/serf/cmd/serf/command/agent.vfEffect2
//vf:override (*github.com/hashicorp/serf/cmd/serf/command/agent.AgentIPC).handleJoin = github.com/hashicorp/serf/cmd/serf/command/agent.vfEffect2
//vf:override (*github.com/hashicorp/serf/cmd/serf/command/agent.AgentIPC).handleInstallKey = github.com/hashicorp/serf/cmd/serf/command/agent.vfEffect2
//vf:override (*github.com/hashicorp/serf/cmd/serf/command/agent.AgentIPC).handleUseKey = github.com/hashicorp/serf/cmd/serf/command/agent.vfEffect2
//vf:override (*github.com/hashicorp/serf/cmd/serf/command/agent.AgentIPC).handleRemoveKey = github.com/hashicorp/serf/cmd/serf/command/agent.vfEffect2
//vf:override (*github.com/hashicorp/serf/cmd/serf/command/agent.AgentIPC).handleListKeys = github.com/hashicorp/serf/cmd/serf/command/agent.vfEffect2
//vf:override (*github.com/hashicorp/serf/cmd/serf/command/agent.AgentIPC).handleStream = github.com/hashicorp/serf/cmd/serf/command/agent.vfEffect2
//vf:override (*github.com/hashicorp/serf/cmd/serf/command/agent.AgentIPC).handleMonitor = github.com/hashicorp/serf/cmd/serf/command/agent.vfEffect2
//vf:override (*github.com/hashicorp/serf/cmd/serf/command/agent.AgentIPC).handleStop = github.com/hashicorp/serf/cmd/serf/command/agent.vfEffect2
//vf:override (*github.com/hashicorp/serf/cmd/serf/command/agent.AgentIPC).handleLeave = github.com/hashicorp/serf/cmd/serf/command/agent.vfEffect2
//vf:override (*github.com/hashicorp/serf/cmd/serf/command/agent.AgentIPC).handleTags = github.com/hashicorp/serf/cmd/serf/command/agent.vfEffect2
//vf:override (*github.com/hashicorp/serf/cmd/serf/command/agent.AgentIPC).handleQuery = github.com/hashicorp/serf/cmd/serf/command/agent.vfEffect2
//vf:override (*github.com/hashicorp/serf/cmd/serf/command/agent.AgentIPC).handleRespond = github.com/hashicorp/serf/cmd/serf/command/agent.vfEffect2
//vf:override (*github.com/hashicorp/serf/cmd/serf/command/agent.AgentIPC).handleStats = github.com/hashicorp/serf/cmd/serf/command/agent.vfEffect2
//vf:override (*github.com/hashicorp/serf/cmd/serf/command/agent.AgentIPC).handleGetCoordinate = github.com/hashicorp/serf/cmd/serf/command/agent.vfEffect2
//vf:override (*github.com/hashicorp/serf/cmd/serf/command/agent.AgentIPC).handleMembers = github.com/hashicorp/serf/cmd/serf/command/agent.vfEffect3
//vf:override (*github.com/hashicorp/serf/cmd/serf/command/agent.IPCClient).Send = github.com/hashicorp/serf/cmd/serf/command/agent.vfStubSend
//vf:unwind 8
//vf:bound state connection with symbolic handshake version (0 or 1) and auth flag; auth key configured or not; request: any of the 20 commands or an unknown one, handshake version symbolic int32, auth key right / wrong / empty, body well-formed or of another type
//vf:stub command bodies other than handshake/auth -> effect recorder; IPCClient.Send -> reply recorder; msgpack decoder -> queue filled by the harness
//vf:nonative
func VfC24_Gate() {
	vfSent, vfEffects = nil, nil
	i := vfC24IPC()
	c := &IPCClient{name: "c"}
	if vfBool("shook") {
		c.version = 1
	}
	c.didAuth = vfBool("authed")
	vfC24Step(i, c, vfU64("seq"), "C24.gate")
}

// VfC24_Seq3: three arbitrary requests on a fresh connection.
//
//vf:override (*github.com/hashicorp/serf/cmd/serf/command/agent.AgentIPC).handleEvent = github.com/hashicorp/serf/cmd/serf/command/agent.vfEffect2
//vf:override (*github.com/hashicorp/serf/cmd/serf/command/agent.AgentIPC).handleForceLeave = github.com/hashicorp/serf/cmd/serf/command/agent.vfEffect2
//vf:override (*github.com/hashicorp/serf/cmd/serf/command/agent.AgentIPC).handleJoin = github.com/hashicorp/serf/cmd/serf/command/agent.vfEffect2
//vf:override (*github.com/hashicorp/serf/cmd/serf/command/agent.AgentIPC).handleInstallKey = github.com/hashicorp/serf/cmd/serf/command/agent.vfEffect2
//vf:override (*github.com/hashicorp/serf/cmd/serf/command/agent.AgentIPC).handleUseKey = github.com/hashicorp/serf/cmd/serf/command/agent.vfEffect2
//vf:override (*github.com/hashicorp/serf/cmd/serf/command/agent.AgentIPC).handleRemoveKey = github.com/hashicorp/serf/cmd/serf/command/agent.vfEffect2
//vf:override (*github.com/hashicorp/serf/cmd/serf/command/agent.AgentIPC).handleListKeys = github.com/hashicorp/serf/cmd/serf/command/agent.vfEffect2
//vf:override (*github.com/hashicorp/serf/cmd/serf/command/agent.AgentIPC).handleStream = github.com/hashicorp/serf/cmd/serf/command/agent.vfEffect2
//vf:override (*github.com/hashicorp/serf/cmd/serf/command/agent.AgentIPC).handleMonitor = github.com/hashicorp/serf/cmd/serf/command/agent.vfEffect2
//vf:override (*github.com/hashicorp/serf/cmd/serf/command/agent.AgentIPC).handleStop = github.com/hashicorp/serf/cmd/serf/command/agent.vfEffect2
//vf:override (*github.com/hashicorp/serf/cmd/serf/command/agent.AgentIPC).handleLeave = github.com/hashicorp/serf/cmd/serf/command/agent.vfEffect2
//vf:override (*github.com/hashicorp/serf/cmd/serf/command/agent.AgentIPC).handleTags = github.com/hashicorp/serf/cmd/serf/command/agent.vfEffect2
//vf:override (*github.com/hashicorp/serf/cmd/serf/command/agent.AgentIPC).handleQuery = github.com/hashicorp/serf/cmd/serf/command/agent.vfEffect2
//vf:override (*github.com/hashicorp/serf/cmd/serf/command/agent.AgentIPC).handleRespond = github.com/hashicorp/serf/cmd/serf/command/agent.vfEffect2
//vf:override (*github.com/hashicorp/serf/cmd/serf/command/agent.AgentIPC).handleStats = github.com/hashicorp/serf/cmd/serf/command/agent.vfEffect2
//vf:override (*github.com/hashicorp/serf/cmd/serf/command/agent.AgentIPC).handleGetCoordinate = github.com/hashicorp/serf/cmd/serf/command/agent.vfEffect2
//vf:override (*github.com/hashicorp/serf/cmd/serf/command/agent.AgentIPC).handleMembers = github.com/hashicorp/serf/cmd/serf/command/agent.vfEffect3
//vf:override (*github.com/hashicorp/serf/cmd/serf/command/agent.IPCClient).Send = github.com/hashicorp/serf/cmd/serf/command/agent.vfStubSend
//vf:unwind 10
//vf:paths quick=400000 thorough=4000000
//vf:bound sequence quick=3 thorough=4 requests on a fresh connection (stops when the connection is ended), same request space as VfC24_Gate
//vf:stub as VfC24_Gate
//vf:nonative
func VfC24_Seq3() {
	vfSent, vfEffects = nil, nil
	i := vfC24IPC()
	c := &IPCClient{name: "c"}
	for k := 0; k < 3+vfTier(); k++ {
		if !vfC24Step(i, c, uint64(k+1), "C24.seq") {
			break
		}
	}
}
