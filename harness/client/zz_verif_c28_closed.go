//go:build verif

package client

import "net"

var vfTCPConn net.TCPConn

// VfC28_AfterClose: every call on a client that has been closed (by the user,
// or by the reader when the agent hung up - both run Close) returns the
// "client closed" error instead of panicking, a second Close is harmless, and a
// subscriber channel handed to a late Stream / Monitor / Query is closed.
//
//vf:unwind 16
//vf:bound calls one subscriber registered, Close, then one of Stop | Stream | Monitor | Query | a plain command (ForceLeave), then Close again
//vf:stub connection -> zero net.TCPConn (its Close reports EINVAL without touching a descriptor)
//vf:nonative
func VfC28_AfterClose() {
	c := vfClient()
	c.conn = &vfTCPConn
	evCh := make(chan map[string]any, 4)
	h := &streamHandler{client: c, initCh: make(chan error, 1), eventCh: evCh, seq: 5}
	c.handleSeq(5, h)
	c.Close() //nolint:errcheck // the zero connection reports EINVAL; not the subject
	vfAssert("C28.closed.subscriber.closed", h.closed)
	var err error
	switch vfChoice("call", 5) {
	case 0:
		err = c.Stop(StreamHandle(5))
	case 1:
		ch := make(chan map[string]any, 1)
		_, err = c.Stream("*", ch)
		_, open := <-ch
		vfAssert("C28.closed.stream.channel.closed", !open)
	case 2:
		ch := make(chan string, 1)
		_, err = c.Monitor("DEBUG", ch)
		_, open := <-ch
		vfAssert("C28.closed.monitor.channel.closed", !open)
	case 3:
		ack := make(chan string, 1)
		resp := make(chan NodeResponse, 1)
		err = c.Query(&QueryParam{Name: "q", RequestAck: true, AckCh: ack, RespCh: resp})
		_, open1 := <-ack
		_, open2 := <-resp
		vfAssert("C28.closed.query.channels.closed", !open1 && !open2)
	case 4:
		err = c.ForceLeave("n")
	}
	vfReach("C28.closed.done")
	vfAssert("C28.closed.error", err == errClientClosed)
	vfAssert("C28.closed.close.again", c.Close() == nil) // the second Close does nothing
	vfAssert("C28.closed.nothing.registered", len(c.dispatch) == 0)
}

// VfC28_CloseClose: the user's Close overlaps with the Close the reader
// goroutine runs when the agent drops the connection: whatever the
// interleaving, nothing panics (the shutdown channel is closed once) and the
// subscriber is cleaned up exactly once.
//
//vf:sched
//vf:switches quick=3 thorough=4
//vf:paths quick=800000 thorough=8000000
//vf:unwind 16
//vf:bound threads Close || Close with one registered stream subscriber
//vf:stub connection -> zero net.TCPConn
//vf:nonative
func VfC28_CloseClose() {
	c := vfClient()
	c.conn = &vfTCPConn
	evCh := make(chan map[string]any, 4)
	h := &streamHandler{client: c, initCh: make(chan error, 1), eventCh: evCh, seq: 5}
	c.handleSeq(5, h)
	vfGo(func() { c.Close() }) //nolint:errcheck
	c.Close()                   //nolint:errcheck
	vfWaitThreads()
	vfReach("C28.closeclose.done")
	vfAssert("C28.closeclose.closed", c.IsClosed() && h.closed)
	_, open := <-evCh
	vfAssert("C28.closeclose.subscriber.closed", !open)
	_, still := c.dispatch[5]
	vfAssert("C28.closeclose.deregistered", !still)
}
