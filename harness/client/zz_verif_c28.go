//go:build verif

package client

// C28: the RPC client never panics and closes subscriber channels once.
//
// The reader side (respondSeq, as called by listen for each incoming header)
// runs against concurrent Stop (deregisterHandler) and Close (deregisterAll).
// A send on a closed channel or a double close is a panic path; both are
// reported by the engine's implicit "does not crash" assertion.

func vfClient() *RPCClient {
	return &RPCClient{dispatch: map[uint64]seqHandler{}, shutdownCh: make(chan struct{})}
}

// vfC28Run: reader delivers the init header and n records for seq 5 while Stop
// and/or Close run concurrently.
func vfC28Run(c *RPCClient, nrec int) {
	which := vfChoice("who", 3) // 0: Stop, 1: Close, 2: both
	if which == 0 || which == 2 {
		vfGo(func() { c.deregisterHandler(5) })
	}
	if which == 1 || which == 2 {
		vfGo(func() { c.deregisterAll() })
	}
	for i := 0; i <= nrec; i++ {
		c.respondSeq(5, &responseHeader{Seq: 5})
	}
	vfWaitThreads()
}

// VfC28_Stream: event stream subscriber.
//
//vf:sched
//vf:switches quick=2 thorough=3
//vf:paths quick=800000 thorough=8000000
//vf:unwind 16
//vf:bound threads reader (init + 2 records) || Stop and/or Close; the handler's fields are racy locations
//vf:stub msgpack decoder -> queue filled by the harness
//vf:nonative
func VfC28_Stream() {
	c := vfClient()
	initCh := make(chan error, 1)
	evCh := make(chan map[string]any, 4)
	h := &streamHandler{client: c, initCh: initCh, eventCh: evCh, seq: 5}
	vfRacy(h)
	c.handleSeq(5, h)
	vfQueueDecode(&map[string]any{"Event": "user"})
	vfQueueDecode(&map[string]any{"Event": "user"})
	vfC28Run(c, 2)
	vfReach("C28.stream.done")
	vfAssert("C28.stream.closed", h.closed)
	vfAssert("C28.stream.init.once", len(initCh) == 1)
	_, still := c.dispatch[5]
	vfAssert("C28.stream.deregistered", !still)
	vfAssert("C28.stream.atmost.records", len(evCh) <= 2)
}

// VfC28_Monitor: log monitor subscriber.
//
//vf:sched
//vf:switches quick=2 thorough=3
//vf:paths quick=800000 thorough=8000000
//vf:unwind 16
//vf:bound threads reader (init + 2 records) || Stop and/or Close
//vf:nonative
func VfC28_Monitor() {
	c := vfClient()
	initCh := make(chan error, 1)
	logCh := make(chan string, 4)
	h := &monitorHandler{client: c, initCh: initCh, logCh: logCh, seq: 5}
	vfRacy(h)
	c.handleSeq(5, h)
	vfQueueDecode(&logRecord{Log: "l1"})
	vfQueueDecode(&logRecord{Log: "l2"})
	vfC28Run(c, 2)
	vfReach("C28.monitor.done")
	vfAssert("C28.monitor.closed", h.closed)
	vfAssert("C28.monitor.init.once", len(initCh) == 1)
	vfAssert("C28.monitor.atmost.records", len(logCh) <= 2)
}

// VfC28_Query: query subscriber: an ack, a response and the completion record.
//
//vf:sched
//vf:switches quick=2 thorough=3
//vf:paths quick=800000 thorough=8000000
//vf:unwind 16
//vf:bound threads reader (init + ack + response + done + a late record) || Stop and/or Close
//vf:nonative
func VfC28_Query() {
	c := vfClient()
	initCh := make(chan error, 1)
	ackCh := make(chan string, 4)
	respCh := make(chan NodeResponse, 4)
	h := &queryHandler{client: c, initCh: initCh, ackCh: ackCh, respCh: respCh, seq: 5}
	vfRacy(h)
	c.handleSeq(5, h)
	vfQueueDecode(&queryRecord{Type: queryRecordAck, From: "n0"})
	vfQueueDecode(&queryRecord{Type: queryRecordResponse, From: "n0", Payload: []byte{1}})
	vfQueueDecode(&queryRecord{Type: queryRecordDone})
	vfQueueDecode(&queryRecord{Type: queryRecordAck, From: "late"})
	vfC28Run(c, 4)
	vfReach("C28.query.done")
	vfAssert("C28.query.closed", h.closed)
	vfAssert("C28.query.init.once", len(initCh) == 1)
	vfAssert("C28.query.atmost", len(ackCh) <= 1 && len(respCh) <= 1)
}
