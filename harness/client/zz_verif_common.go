//go:build verif

package client

// Harness intrinsics. Under the symbolic engine (/verif/engine) calls to these
// functions are intercepted by name; the bodies below are the *native*
// implementation used when a witness or counterexample vector is replayed
// against the compiled code.

import (
	"os"
	"time"
	"runtime"
	"sync"
	"fmt"
	"math"
	"strconv"
)

type vfStop struct{ why string }

type vfNativeStateT struct {
	reached, failed, passed []string
	assumeFailed            bool
}

var (
	vfVec   map[string]string
	vfOcc   map[string]int
	vfState vfNativeStateT
)

func vfResetNative(in map[string]string) {
	vfVec = in
	vfOcc = map[string]int{}
	vfState = vfNativeStateT{}
}

func vfNativeState() vfNativeStateT { return vfState }

func vfName(base string) string {
	n := vfOcc[base]
	vfOcc[base] = n + 1
	if n == 0 {
		return base
	}
	return fmt.Sprintf("%s#%d", base, n)
}

func vfRaw(name string) uint64 {
	s, ok := vfVec[name]
	if !ok {
		return 0
	}
	v, _ := strconv.ParseUint(s, 10, 64)
	return v
}

func vfU64(name string) uint64   { return vfRaw(vfName(name)) }
func vfI64(name string) int64    { return int64(vfRaw(vfName(name))) }
func vfInt(name string) int      { return int(vfRaw(vfName(name))) }
func vfU32(name string) uint32   { return uint32(vfRaw(vfName(name))) }
func vfI32(name string) int32    { return int32(vfRaw(vfName(name))) }
func vfU16(name string) uint16   { return uint16(vfRaw(vfName(name))) }
func vfU8(name string) uint8     { return uint8(vfRaw(vfName(name))) }
func vfBool(name string) bool    { return vfRaw(vfName(name)) != 0 }
func vfF64(name string) float64  { return math.Float64frombits(vfRaw(vfName(name))) }
func vfChoice(name string, n int) int {
	v := int(vfRaw(vfName(name)))
	if v < 0 || v >= n {
		v = 0
	}
	return v
}

func vfBytes(name string, max int) []byte {
	nm := vfName(name)
	n := int(vfRaw(nm + ".len"))
	if n > max {
		n = max
	}
	b := make([]byte, n)
	for i := range b {
		b[i] = byte(vfRaw(fmt.Sprintf("%s[%d]", nm, i)))
	}
	return b
}

func vfString(name string, max int) string { return string(vfBytes(name, max)) }

func vfAssume(c bool) {
	if !c {
		vfState.assumeFailed = true
		panic(vfStop{"assumption false"})
	}
}

func vfAssert(id string, c bool) {
	if c {
		vfState.passed = append(vfState.passed, id)
	} else {
		vfState.failed = append(vfState.failed, id)
	}
}

func vfReach(id string)            { vfState.reached = append(vfState.reached, id) }
func vfNative() bool               { return true }
func vfAnd(a, b bool) bool         { return a && b }
func vfOr(a, b bool) bool          { return a || b }
func vfImplies(a, b bool) bool     { return !a || b }
func vfObserve(name string, x any) {}
func vfIteU64(c bool, a, b uint64) uint64 {
	if c {
		return a
	}
	return b
}

// vfGo / vfWaitThreads: natively plain goroutines joined by a WaitGroup (the
// schedule of a counterexample is not forced natively; see DESIGN 5.4).
var vfWG sync.WaitGroup

func vfGo(f func()) {
	vfWG.Add(1)
	go func() { defer vfWG.Done(); f() }()
}
func vfWaitThreads() { vfWG.Wait() }
func vfYield()       { runtime.Gosched() }

// vfTier: 0 = quick, 1 = thorough (bounds selection inside harnesses).
func vfTier() int {
	if os.Getenv("VERIF_TIER") == "thorough" {
		return 1
	}
	return 0
}

// vfYieldTo lets other goroutines run (engine: forced switch to another enabled thread).
func vfYieldTo() { runtime.Gosched(); time.Sleep(time.Millisecond) }

// vfTime: a symbolic instant. Natively instants are offsets from a fixed base
// carrying a monotonic reading, so Sub/After/Before agree with the engine's model.
var vfBaseTime = time.Now()

func vfTime(name string) time.Time {
	return vfBaseTime.Add(time.Duration(vfRaw(vfName(name)) & (1<<62 - 1)))
}
func vfB2I(b bool) int {
	if b {
		return 1
	}
	return 0
}

// engine-only observers (native replay of the harnesses using them is disabled)
func vfPackets() int              { return 0 }
func vfPacketName(i int) string   { return "" }
func vfPacketAddr(i int) string   { return "" }
func vfPacketBytes(i int) []byte  { return nil }
func vfSetLocalNode(n any)        {}
func vfSetNumMembers(n int)       {}
func vfOpaqueEncoding()           {}
func vfLastEncLen() int           { return 0 }
func vfPacketLen(i int) int       { return 0 }
func vfEncLen(i int) int          { return 0 }

// vfFixedBytes: n symbolic bytes (fixed length).
func vfFixedBytes(name string, n int) []byte {
	nm := vfName(name)
	b := make([]byte, n)
	for i := range b {
		b[i] = byte(vfRaw(fmt.Sprintf("%s[%d]", nm, i)))
	}
	return b
}
func vfSpawnedCount() int         { return 0 }
func vfSpawnedName(i int) string  { return "" }
func vfRunSpawned(i int)          {}
func vfRacy(p any)                {}
func vfHeld(p any) bool           { return false }
func vfHeldByMe(p any) bool       { return false }

// regexp call log (engine only)
func vfMatchCount() int           { return 0 }
func vfMatchExpr(i int) string    { return "" }
func vfMatchSubject(i int) string { return "" }
func vfMatchResult(i int) bool    { return false }
func vfMatchErr(i int) bool       { return false }

// vfHoldTimers keeps time.AfterFunc callbacks from firing until vfReleaseTimers (engine only).
func vfHoldTimers()    {}
func vfReleaseTimers() {}

// vfStubCalls: number of recorded calls of a memberlist lifecycle stub ("Join", "Leave", "Shutdown") (engine only)
func vfStubCalls(name string) int { return 0 }

// vfQuietLock: operations on this mutex are not pre-emption points (engine only).
func vfQuietLock(p any) {}

// vfDecodeOpaque: identity decoding of an opaque encoded buffer (engine only).
func vfDecodeOpaque(b []byte, out any) bool { return false }

// abstract file store (engine only)
func vfFileFaults()                      {}
func vfFileExists(name string) bool      { return false }
func vfFileWrites(name string) int       { return 0 }
func vfFileSet(name string, v any)       {}
func vfFileJSON(name string, out any) bool { return false }

// RPC decoder queue (engine only)
func vfQueueDecode(v any)    {}
func vfQueueDecodeNil()      {} // the next Decode reads a msgpack nil: no error, the target becomes its zero value
func vfDecodeQueueLen() int  { return 0 }

func vfMlFaults()                      {}
func vfOpaqueBytes(name string) []byte { return nil }
func vfTrace(msg string) {}
func vfFixClock() {}
