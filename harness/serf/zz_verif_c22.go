//go:build verif

package serf

import (
	"bytes"
	"encoding/base64"
	"time"

	"github.com/hashicorp/memberlist"
)

// C22: keyring changes are persisted and reload exactly.
//
// Inductive step: the ring is arbitrary but valid (1..3 distinct keys of 16 or
// 24 bytes, primary first) and the keyring file holds exactly the ring, in
// order. One install/use/remove request with an arbitrary key is handled by
// the real handler on top of memberlist's real Keyring. Afterwards the file
// must again hold exactly the ring in order, so that the loader (first entry
// = primary; checked in the agent package, VfC22_Loader) rebuilds the same ring.

const vfC22File = "keyring.json"

var vfC22Stale bool

func vfC22Key(name string) []byte {
	if vfBool(name + ".long") {
		return vfFixedBytes(name, 24)
	}
	return vfFixedBytes(name, 16)
}

func vfC22Setup() (*Serf, *memberlist.Keyring, [][]byte) {
	n := 1 + vfChoice("nring", 3)
	keys := make([][]byte, n)
	for i := range keys {
		keys[i] = vfC22Key("key")
		for j := 0; j < i; j++ {
			vfAssume(!bytes.Equal(keys[i], keys[j]))
		}
	}
	ring, err := memberlist.NewKeyring(keys, keys[0])
	vfAssert("C22.setup.ring", err == nil && ring != nil)
	s := vfNewSerf("self", 1)
	s.config.MemberlistConfig.Keyring = ring
	s.config.KeyringFile = vfC22File
	var enc []string
	for _, k := range ring.GetKeys() {
		enc = append(enc, base64.StdEncoding.EncodeToString(k))
	}
	// the file may be behind the ring: an earlier request changed the ring and then failed to write the file
	// (it was answered with an error, which is allowed); the next successful request has to bring the file up to date
	vfC22Stale = false
	if n >= 2 && vfBool("staleFile") {
		vfC22Stale = true
		enc = enc[:n-1]
	}
	vfFileSet(vfC22File, enc)
	return s, ring, keys
}

func vfC22Snapshot(ring *memberlist.Keyring) [][]byte {
	cur := ring.GetKeys()
	out := make([][]byte, len(cur))
	copy(out, cur)
	return out
}

func vfC22Contains(keys [][]byte, k []byte) bool {
	r := false
	for _, x := range keys {
		r = vfOr(r, bytes.Equal(x, k))
	}
	return r
}

// vfC22Invariant: ring non-empty, keys valid and pairwise distinct, and the
// file reloads (loader rule: first entry is the primary) into the same ring.
func vfC22Invariant(ring *memberlist.Keyring, pfx string) {
	cur := ring.GetKeys()
	vfAssert(pfx+".ring.nonempty", len(cur) >= 1)
	for i := range cur {
		vfAssert(pfx+".ring.valid", len(cur[i]) == 16 || len(cur[i]) == 24 || len(cur[i]) == 32)
		for j := 0; j < i; j++ {
			vfAssert(pfx+".ring.distinct", !bytes.Equal(cur[i], cur[j]))
		}
	}
	var fkeys []string
	ok := vfFileJSON(vfC22File, &fkeys)
	vfAssert(pfx+".file.readable", ok)
	vfAssert(pfx+".file.count", len(fkeys) == len(cur))
	if !ok || len(fkeys) != len(cur) || len(cur) == 0 {
		return
	}
	dec := make([][]byte, len(fkeys))
	for i, fk := range fkeys {
		b, err := base64.StdEncoding.DecodeString(fk)
		vfAssert(pfx+".file.entry.decodes", err == nil)
		dec[i] = b
	}
	re, err := memberlist.NewKeyring(dec, dec[0])
	vfAssert(pfx+".reload.ok", err == nil && re != nil)
	if re == nil {
		return
	}
	rk := re.GetKeys()
	vfAssert(pfx+".reload.count", len(rk) == len(cur))
	for i := range rk {
		if i < len(cur) {
			vfAssert(pfx+".reload.same", bytes.Equal(rk[i], cur[i]))
		}
	}
	vfAssert(pfx+".reload.primary", bytes.Equal(re.GetPrimaryKey(), ring.GetPrimaryKey()))
}

// VfC22_Step: one key request against an arbitrary valid ring.
//
//vf:unwind 40
//vf:paths quick=400000 thorough=4000000
//vf:bound state ring of 1..3 distinct keys, each 16 or 24 symbolic bytes, file equal to the ring or one key behind it; request: install | use | remove with a key equal to a ring key, or a fresh key of 16, 24, 17 (invalid) or 0 bytes
//vf:stub codec -> identity on tokens; json.MarshalIndent/Unmarshal + os.WriteFile/ReadFile -> abstract file holding the marshalled value; base64 -> identity on bytes (injective, length preserving; Encode(dst,src) writes a prefix of dst); transport recorded
//vf:outside the JSON and base64 codecs themselves (trusted); file-system errors; 32-byte keys (same code path as 24)
//vf:nonative
func VfC22_Step() {
	s, ring, keys := vfC22Setup()
	before := vfC22Snapshot(ring)
	primaryBefore := ring.GetPrimaryKey()
	var key []byte
	fresh := false
	switch vfChoice("reqkey", 5) {
	case 0:
		key = append([]byte{}, keys[vfChoice("which", len(keys))]...)
	case 1:
		key, fresh = vfFixedBytes("req", 16), true
	case 2:
		key, fresh = vfFixedBytes("req", 24), true
	case 3:
		key, fresh = vfFixedBytes("req", 17), true
	case 4:
		key, fresh = nil, true
	}
	if fresh {
		for _, k := range keys {
			vfAssume(!bytes.Equal(k, key))
		}
	}
	payload, _ := encodeMessage(messageKeyRequestType, keyRequest{Key: key}, false)
	op := vfChoice("op", 3)
	name := [3]string{installKeyQuery, useKeyQuery, removeKeyQuery}[op]
	q := &Query{serf: s, id: 7, LTime: 5, Name: internalQueryName(name), Payload: payload,
		addr: []byte{10, 0, 0, 9}, port: 1, sourceNode: "origin", deadline: time.Now().Add(time.Hour)}
	sq := &serfQueries{serf: s}
	dl := q.deadline // (cleared by the handler once it has replied)
	sq.handleQuery(q)
	if time.Now().After(dl) {
		return // the query's deadline passed while it was handled: no reply is due (clock is arbitrary)
	}
	vfReach("C22.step.done")
	// the reply
	vfAssert("C22.step.replied", vfPackets() == 1)
	var qr messageQueryResponse
	var nk nodeKeyResponse
	pk := vfPacketBytes(0)
	okr := len(pk) > 1 && decodeMessage(pk[1:], &qr) == nil && len(qr.Payload) > 1 && decodeMessage(qr.Payload[1:], &nk) == nil
	vfAssert("C22.step.reply.decodes", okr)
	after := ring.GetKeys()
	if !(vfC22Stale && !nk.Result) {
		vfC22Invariant(ring, "C22.step")
	}
	if !nk.Result {
		// a rejected request changes neither the keyring nor the file
		vfAssert("C22.rejected.ring.count", len(after) == len(before))
		for i := range before {
			if i < len(after) {
				vfAssert("C22.rejected.ring.same", bytes.Equal(after[i], before[i]))
			}
		}
		vfAssert("C22.rejected.file.untouched", vfFileWrites(vfC22File) == 0)
		return
	}
	has := vfC22Contains(after, key)
	switch op {
	case 0:
		vfAssert("C22.install.present", has)
		vfAssert("C22.install.primary.kept", bytes.Equal(ring.GetPrimaryKey(), primaryBefore))
		vfAssert("C22.install.count", len(after) == len(before)+vfB2I(!vfC22Contains(before, key)))
	case 1:
		vfAssert("C22.use.primary", bytes.Equal(ring.GetPrimaryKey(), key))
		vfAssert("C22.use.count", len(after) == len(before))
	case 2:
		vfAssert("C22.remove.absent", !has)
		vfAssert("C22.remove.primary.kept", bytes.Equal(ring.GetPrimaryKey(), primaryBefore))
		vfAssert("C22.remove.count", len(after) == len(before)-vfB2I(vfC22Contains(before, key)))
	}
	for _, k := range before {
		if op != 2 {
			vfAssert("C22.others.kept", vfC22Contains(after, k))
		} else {
			vfAssert("C22.others.kept.remove", vfOr(bytes.Equal(k, key), vfC22Contains(after, k)))
		}
	}
}
