//go:build verif

package serf

// C02: join/leave intents resolve by Lamport time under any delivery schedule.

type vfSnap struct {
	present bool
	status  MemberStatus
	stime   LamportTime
}

func vfSnapMembers(all []*memberState) []vfSnap {
	out := make([]vfSnap, len(all))
	for i, m := range all {
		if m != nil {
			out[i] = vfSnap{true, m.Status, m.statusLTime}
		}
	}
	return out
}

// vfC02Mono: every record that survives the step has a status time that did not shrink.
func vfC02Mono(s *Serf, all []*memberState, pre []vfSnap, pfx string) {
	for i, m := range all {
		if m == nil {
			continue
		}
		if cur, ok := s.members[m.Name]; ok && cur == m {
			vfAssert(pfx+".stime.monotone", m.statusLTime >= pre[i].stime)
		}
	}
}

// VfC02_StepIntent: one join or leave intent (no prune) with arbitrary time for
// a known member or an unknown node, from an arbitrary member table.
//
//vf:unwind 8
//vf:bound state 2 members of symbolic presence/status/status time + buffered intent for 1 unknown node; intent time: all 64-bit values
func VfC02_StepIntent() {
	s := vfNewSerf("self", 1)
	all := vfMembers(s, 2)
	vfArbIntents(s, []string{"m2"})
	pre := vfSnapMembers(all)
	who := vfChoice("who", 3)
	name := vfNames[who]
	lt := LamportTime(vfU64("lt"))
	isLeave := vfBool("isLeave")
	preIntent, hadIntent := s.recentIntents[name]
	var rb bool
	if isLeave {
		rb = s.handleNodeLeaveIntent(&messageLeave{LTime: lt, Node: name})
	} else {
		rb = s.handleNodeJoinIntent(&messageJoin{LTime: lt, Node: name})
	}
	vfReach("C02.intent.done")
	vfC02Mono(s, all, pre, "C02.intent")
	if who < 2 && all[who] != nil {
		m := all[who]
		if lt <= pre[who].stime {
			// an intent that is not newer than what was applied changes nothing
			vfAssert("C02.intent.stale.status", m.Status == pre[who].status)
			vfAssert("C02.intent.stale.stime", m.statusLTime == pre[who].stime)
			vfAssert("C02.intent.stale.norebroadcast", !rb)
		} else {
			vfAssert("C02.intent.newer.applied", m.statusLTime == lt)
			// the documented transitions
			want := pre[who].status
			if isLeave {
				switch pre[who].status {
				case StatusAlive:
					want = StatusLeaving
				case StatusFailed:
					want = StatusLeft
				}
			} else if pre[who].status == StatusLeaving {
				want = StatusAlive
			}
			vfAssert("C02.intent.newer.transition", m.Status == want)
		}
		// other members are untouched
		o := all[1-who]
		if o != nil {
			vfAssert("C02.intent.other", o.Status == pre[1-who].status && o.statusLTime == pre[1-who].stime)
		}
	} else {
		// unknown node: the buffer keeps the newest intent (first one wins ties)
		got, ok := s.recentIntents[name]
		vfAssert("C02.intent.buffered", ok)
		if hadIntent && lt <= preIntent.LTime {
			vfAssert("C02.intent.buffer.keepsnewer", got.LTime == preIntent.LTime && got.Type == preIntent.Type && !rb)
		} else {
			wantT := messageJoinType
			if isLeave {
				wantT = messageLeaveType
			}
			vfAssert("C02.intent.buffer.takesnewer", got.LTime == lt && got.Type == wantT && rb)
		}
	}
}

// VfC02_StepNotify: one memberlist notification (join / leave / update) for a
// known or unknown node never moves a status time backwards; a join of an
// unknown node adopts the newest buffered intent.
//
//vf:unwind 8
//vf:bound state as VfC02_StepIntent
func VfC02_StepNotify() {
	s := vfNewSerf("self", 1)
	all := vfMembers(s, 2)
	vfArbIntents(s, []string{"m2"})
	pre := vfSnapMembers(all)
	who := vfChoice("who", 3)
	name := vfNames[who]
	preIntent, hadIntent := s.recentIntents[name]
	known := who < 2 && all[who] != nil
	kind := vfChoice("kind", 3)
	switch kind {
	case 0:
		s.handleNodeJoin(vfNode(name))
	case 1:
		s.handleNodeLeave(vfNode(name))
	case 2:
		s.handleNodeUpdate(vfNode(name))
	}
	vfReach("C02.notify.done")
	vfC02Mono(s, all, pre, "C02.notify")
	if known {
		vfAssert("C02.notify.stime.kept", all[who].statusLTime == pre[who].stime)
	} else if kind == 0 {
		m, ok := s.members[name]
		vfAssert("C02.notify.join.created", ok && m != nil)
		if ok && m != nil {
			if hadIntent {
				vfAssert("C02.notify.join.adopts.time", m.statusLTime == preIntent.LTime)
				vfAssert("C02.notify.join.adopts.kind", (m.Status == StatusLeaving) == (preIntent.Type == messageLeaveType))
				vfAssert("C02.notify.join.alive.or.leaving", m.Status == StatusAlive || m.Status == StatusLeaving)
			} else {
				vfAssert("C02.notify.join.fresh", m.Status == StatusAlive && m.statusLTime == 0)
			}
		}
	} else {
		_, ok := s.members[name]
		vfAssert("C02.notify.unknown.ignored", !ok)
	}
}

// VfC02_Buffer: two intents for an unknown node in either order, then the
// memberlist join: the member takes the newest intent (type and time).
//
//vf:unwind 8
//vf:bound inputs 2 intents of symbolic kind and 64-bit time for one unknown node
func VfC02_Buffer() {
	s := vfNewSerf("self", 1)
	vfMembers(s, 1)
	t1, t2 := LamportTime(vfU64("t1")), LamportTime(vfU64("t2"))
	l1, l2 := vfBool("leave1"), vfBool("leave2")
	deliver := func(t LamportTime, leave bool) {
		if leave {
			s.handleNodeLeaveIntent(&messageLeave{LTime: t, Node: "x"})
		} else {
			s.handleNodeJoinIntent(&messageJoin{LTime: t, Node: "x"})
		}
	}
	deliver(t1, l1)
	deliver(t2, l2)
	s.handleNodeJoin(vfNode("x"))
	m := s.members["x"]
	vfReach("C02.buffer.done")
	newestLeave := l1
	newestT := t1
	if t2 > t1 {
		newestLeave, newestT = l2, t2
	}
	vfAssert("C02.buffer.time", m != nil && m.statusLTime == newestT)
	vfAssert("C02.buffer.kind", m != nil && (m.Status == StatusLeaving) == newestLeave && (m.Status == StatusAlive) == !newestLeave)
}

// ---- two-replica agreement --------------------------------------------------

// vfC02Rep is the delivery plan of one replica: the memberlist notifications
// about subject "x" come in causal order (join, optionally down, optionally
// re-join) and each existing intent is delivered zero or one time at a symbolic
// position between them.
type vfC02Rep struct {
	s                *Serf
	j, l, j2         LamportTime
	pj, pl, pj2      int
	nnotes           int
	lateFirst        bool
	down, rejoin     bool
	gotJ, gotL, gotJ2 bool
}

func vfC02Plan(s *Serf, tag string, j, l, j2 LamportTime, hasLeave, down, rejoin, coarse, ordered bool) *vfC02Rep {
	r := &vfC02Rep{s: s, j: j, l: l, j2: j2, down: down, rejoin: rejoin}
	r.nnotes = 1
	if down {
		r.nnotes = 2
		if rejoin {
			r.nnotes = 3
		}
	}
	// position p: delivered after p notifications; nnotes+1: lost. A coarse plan delivers late (after all
	// notifications) or never.
	pos := func(name string) int {
		if ordered {
			// every intent right after the notification it belongs to: join and leave while x is up, the second join after x is back
			if name == ".posJ2" {
				return 3
			}
			return 1
		}
		if coarse {
			return r.nnotes + vfChoice(tag+name, 2)
		}
		return vfChoice(tag+name, r.nnotes+2)
	}
	r.pj = pos(".posJ")
	r.pl, r.pj2 = r.nnotes+1, r.nnotes+1
	if hasLeave {
		r.pl = pos(".posL")
	}
	if rejoin {
		r.pj2 = pos(".posJ2")
	}
	r.gotJ, r.gotL, r.gotJ2 = r.pj <= r.nnotes, r.pl <= r.nnotes, r.pj2 <= r.nnotes
	// order of intents that share a position (only a choice when two do)
	if (r.gotJ && r.gotL && r.pj == r.pl) || (r.gotJ && r.gotJ2 && r.pj == r.pj2) || (r.gotL && r.gotJ2 && r.pl == r.pj2) {
		r.lateFirst = vfBool(tag + ".lateFirst")
	}
	return r
}

func (r *vfC02Rep) intents(p int) {
	s := r.s
	dJ := func() {
		if r.pj == p {
			s.handleNodeJoinIntent(&messageJoin{LTime: r.j, Node: "x"})
		}
	}
	dL := func() {
		if r.pl == p {
			s.handleNodeLeaveIntent(&messageLeave{LTime: r.l, Node: "x"})
		}
	}
	dJ2 := func() {
		if r.pj2 == p {
			s.handleNodeJoinIntent(&messageJoin{LTime: r.j2, Node: "x"})
		}
	}
	if r.lateFirst {
		dJ2()
		dL()
		dJ()
	} else {
		dJ()
		dL()
		dJ2()
	}
}

// phase1: everything up to and including what arrives while x is up for the first time
func (r *vfC02Rep) phase1() {
	r.intents(0)
	r.s.handleNodeJoin(vfNode("x"))
	r.intents(1)
}

// phase2: x goes down (and possibly comes back)
func (r *vfC02Rep) phase2() {
	if r.down {
		r.s.handleNodeLeave(vfNode("x"))
		r.intents(2)
		if r.rejoin {
			r.s.handleNodeJoin(vfNode("x"))
			r.intents(3)
		}
	}
}

func vfC02Sync(from, to *Serf) {
	buf := (&delegate{serf: from}).LocalState(false)
	(&delegate{serf: to}).MergeRemoteState(buf, false)
}

// VfC02_Sync2: two replicas A and B observe one subject member x: x joins with
// intent time j, optionally announces a leave / is force-left (time l > j),
// optionally goes down, optionally comes back (time j2 > l). Each replica
// sees the memberlist notifications in causal order and each intent at an
// arbitrary point or not at all (every intent reaches at least one replica);
// optionally the replicas exchange state while x is still up; at the end two
// rounds of state sync in both directions. The final statuses must follow the
// property's table and the replicas must agree.
//
//vf:unwind 16
//vf:paths quick=400000 thorough=6000000
//vf:bound scenario 2 replicas, 1 subject; quick: join, optional leave, optional down, optional state sync before the down, optional re-join with every intent delivered in order; thorough: additionally re-join after down (then the second replica receives each intent after all notifications or never); each intent delivered <=1x per replica at any point, lost at most at one replica; 2 final sync rounds; times symbolic (j < l < j2 < 2^62)
//vf:stub codec -> identity on tokens
//vf:outside more than two replicas; duplicate delivery to the same replica (covered as a step by VfC02_StepIntent); memberlist notifications out of causal order
func VfC02_Sync2() {
	a, b := vfNewSerf("a", 1), vfNewSerf("b", 1)
	j, l, j2 := vfU64("j"), vfU64("l"), vfU64("j2")
	vfAssume(j < l)
	vfAssume(l < j2)
	vfAssume(j2 < 1<<62)
	hasLeave := vfBool("hasLeave")
	down := vfBool("down")
	rejoin := false
	if down {
		rejoin = vfBool("rejoin")
	}
	// quick tier: the re-join scenario only with every intent delivered in order at both replicas
	ordered := rejoin && vfTier() == 0
	// with a re-join there are three intents and four delivery points: replica b then only gets each intent late
	// or never (260 000 paths in 50 min did not finish the full product)
	ra := vfC02Plan(a, "a", LamportTime(j), LamportTime(l), LamportTime(j2), hasLeave, down, rejoin, false, ordered)
	rb := vfC02Plan(b, "b", LamportTime(j), LamportTime(l), LamportTime(j2), hasLeave, down, rejoin, rejoin, ordered)
	// loss is recovered by state sync only if somebody has the information
	vfAssume(ra.gotJ || rb.gotJ)
	vfAssume(!hasLeave || ra.gotL || rb.gotL)
	vfAssume(!rejoin || ra.gotJ2 || rb.gotJ2)
	ra.phase1()
	rb.phase1()
	if vfBool("midSync") {
		vfC02Sync(a, b)
		vfC02Sync(b, a)
	}
	ra.phase2()
	rb.phase2()
	ma, mb := a.members["x"], b.members["x"]
	lta, ltb := ma.statusLTime, mb.statusLTime
	for round := 0; round < 2; round++ {
		vfC02Sync(a, b)
		vfC02Sync(b, a)
	}
	vfReach("C02.sync.done")
	vfAssert("C02.sync.listed", a.members["x"] == ma && b.members["x"] == mb)
	vfAssert("C02.sync.stime.monotone", ma.statusLTime >= lta && mb.statusLTime >= ltb)
	up := !down || rejoin
	switch {
	case up && (!hasLeave || rejoin):
		vfAssert("C02.sync.alive", ma.Status == StatusAlive && mb.Status == StatusAlive)
	case up:
		// mid-leave: leaving or alive
		vfAssert("C02.sync.midleave", (ma.Status == StatusAlive || ma.Status == StatusLeaving) && (mb.Status == StatusAlive || mb.Status == StatusLeaving))
	case hasLeave:
		vfAssert("C02.sync.left", ma.Status == StatusLeft && mb.Status == StatusLeft)
		vfAssert("C02.sync.left.listed", vfInList(a.leftMembers, ma) == 1 && vfInList(b.leftMembers, mb) == 1 && vfInList(a.failedMembers, ma) == 0 && vfInList(b.failedMembers, mb) == 0)
	default:
		vfAssert("C02.sync.failed", ma.Status == StatusFailed && mb.Status == StatusFailed)
	}
	if !(up && hasLeave && !rejoin) {
		vfAssert("C02.sync.agree", ma.Status == mb.Status)
	}
}
