//go:build verif

package serf

import (
	"net"

	"github.com/hashicorp/memberlist"
)

// C36: name conflicts are settled by a strict majority of valid replies.

var vfC36Replies []NodeResponse
var vfC36Shutdowns int

// vfC36Query stands in for (*Serf).Query: it hands back a response whose
// channel already holds the harness's replies and is closed (query over).
func vfC36Query(s *Serf, name string, payload []byte, params *QueryParam) (*QueryResponse, error) {
	r := &QueryResponse{respCh: make(chan NodeResponse, 8)}
	for _, nr := range vfC36Replies {
		r.respCh <- nr
	}
	close(r.respCh)
	return r, nil
}

func vfC36Shutdown(s *Serf) error {
	vfC36Shutdowns++
	return nil
}

// VfC36_Vote: up to 4 replies, each symbolically one of: empty payload, wrong
// type byte, undecodable body, valid naming our address and port, valid naming
// another address, valid naming another port. The node must shut down exactly
// when matching < floor(valid/2)+1, and malformed replies must not count.
//
//vf:unwind 12
//vf:override (*github.com/hashicorp/serf/serf.Serf).Query = github.com/hashicorp/serf/serf.vfC36Query
//vf:override (*github.com/hashicorp/serf/serf.Serf).Shutdown = github.com/hashicorp/serf/serf.vfC36Shutdown
//vf:bound replies quick=0..3 thorough=0..4 replies of 7 symbolic kinds; local address symbolic (4 bytes), port symbolic
//vf:stub Query -> pre-filled closed response channel; Shutdown -> counter; LocalNode -> harness node; decodeMessage -> identity codec on tokens
//vf:nonative
func VfC36_Vote() {
	nmax := 3
	if vfTier() == 1 {
		nmax = 4
	}
	s := vfNewSerf("self", 4)
	ip := net.IP(vfFixedBytes("ip", 4))
	port := vfU16("port")
	vfSetLocalNode(&memberlist.Node{Name: "self", Addr: ip, Port: port})
	n := vfChoice("n", nmax+1)
	valid, matching := 0, 0
	vfC36Replies = nil
	for i := 0; i < n; i++ {
		kind := vfInt("kind")
		vfAssume(kind >= 0)
		vfAssume(kind <= 6)
		var payload []byte
		switch kind {
		case 0:
			payload = []byte{}
		case 1:
			payload, _ = encodeMessage(messageKeyResponseType, &Member{Addr: ip, Port: port}, false)
		case 2:
			payload = []byte{byte(messageConflictResponseType), 0xc1}
		case 3:
			payload, _ = encodeMessage(messageConflictResponseType, &Member{Name: "self", Addr: ip, Port: port}, false)
			valid++
			matching++
		case 4:
			other := net.IP(vfFixedBytes("oip", 4))
			payload, _ = encodeMessage(messageConflictResponseType, &Member{Name: "self", Addr: other, Port: port}, false)
			valid++
			matching += vfB2I(other.Equal(ip))
		case 6:
			// a valid reply that carries only the name (address and port absent): a vote for nobody
			payload, _ = encodeMessage(messageConflictResponseType, &Member{Name: "self"}, false)
			valid++
		case 5:
			oport := vfU16("oport")
			payload, _ = encodeMessage(messageConflictResponseType, &Member{Name: "self", Addr: ip, Port: oport}, false)
			valid++
			matching += vfB2I(oport == port)
		}
		vfC36Replies = append(vfC36Replies, NodeResponse{From: vfNames[i], Payload: payload})
	}
	vfC36Shutdowns = 0
	s.resolveNodeConflict()
	vfReach("C36.done")
	mustQuit := matching < valid/2+1
	vfAssert("C36.shutdown.iff.minority", (vfC36Shutdowns == 1) == mustQuit)
	vfAssert("C36.shutdown.atmostonce", vfC36Shutdowns <= 1)
}
