//go:build verif

package serf

import "net"

var vfC35IP = net.IP{10, 0, 0, 1}

// C35: query reply relays go to at most k distinct eligible peers, never the
// local node, and nothing is relayed when fewer than k+1 members are known.

// vfC35KRandom is the contract of kRandomMembers used by VfC35_Relay: it
// evaluates the real filter closure on every member and returns an ARBITRARY
// (symbolically chosen) selection of at most k non-filtered members with
// pairwise distinct names. VfC35_KRandom shows the real function meets it.
func vfC35KRandom(k int, members []Member, filterFunc func(Member) bool) []Member {
	var out []Member
	for _, m := range members {
		if filterFunc != nil && filterFunc(m) {
			continue
		}
		dup := false
		for _, o := range out {
			if o.Name == m.Name {
				dup = true
			}
		}
		if dup || len(out) >= k {
			continue
		}
		if vfBool("pick") {
			out = append(out, m)
		}
	}
	return out
}

// VfC35_Relay runs the real relayResponse (gate, encoding, filter closure, send
// loop) on a member table of up to 4 members with symbolic status and protocol
// version (one of them the local node) and a fully symbolic relay factor
// (0..255); kRandomMembers is replaced by its contract (see VfC35_KRandom).
//
//vf:unwind 40
//vf:concretize 8
//vf:override github.com/hashicorp/serf/serf.kRandomMembers = github.com/hashicorp/serf/serf.vfC35KRandom
//vf:bound members up to 4 members (symbolic presence, status, ProtocolMax), relay factor all 256 values
//vf:stub encodeRelayMessage -> token; (*Memberlist).SendToAddress -> recorded
//vf:nonative
func VfC35_Relay() {
	s := vfNewSerf("m0", 4)
	n := 0
	var elig [4]bool
	for i := 0; i < 4; i++ {
		if i > 0 && !vfBool("present") {
			continue
		}
		st := vfStatus("status")
		pmax := vfU8("pmax")
		s.members[vfNames[i]] = &memberState{Member: Member{Name: vfNames[i], Addr: vfC35IP, Port: 7946, Status: st, ProtocolMax: pmax}}
		elig[i] = vfAnd(vfAnd(st == StatusAlive, pmax >= 5), i != 0)
		n++
	}
	k := vfU8("k")
	resp := &messageQueryResponse{LTime: 1, ID: 2, From: "m0"}
	err := s.relayResponse(k, net.UDPAddr{IP: net.IP{10, 0, 0, 9}, Port: 1}, "origin", resp)
	vfAssert("C35.noerror", err == nil)
	np := vfPackets()
	vfReach("C35.done")
	vfAssert("C35.atmost.k", np <= int(k))
	vfAssert("C35.none.when.small", vfImplies(n < int(k)+1, np == 0))
	for a := 0; a < np; a++ {
		name := vfPacketName(a)
		vfAssert("C35.not.self", name != "m0")
		for i := 0; i < 4; i++ {
			if name == vfNames[i] {
				vfAssert("C35.eligible", elig[i])
			}
		}
		for b := a + 1; b < np; b++ {
			vfAssert("C35.distinct", name != vfPacketName(b))
		}
	}
}

// VfC35_KRandom: the real kRandomMembers, for every member list of n entries
// (names possibly equal), every filter outcome, every k and every sequence of
// random picks, returns at most k members, none filtered, names distinct.
//
//vf:unwind 40
//vf:concretize 8
//vf:paths quick=200000 thorough=200000
//vf:bound members lists of 0..2 entries (names possibly equal), every filter outcome; k in 0..4; every sequence of rand.Intn results
func VfC35_KRandom() {
	// lists of 3 with all 9 symbolic picks are ~6 million paths (1.4 M explored in 20 min without finishing): both
	// tiers use lists of 0..2, where the 3*n retry bound and the duplicate-name check are already exercised
	n := vfChoice("n", 3)
	members := make([]Member, n)
	var filtered [3]bool
	for i := 0; i < n; i++ {
		name := "a"
		if vfBool("nameB") {
			name = "b"
		}
		members[i] = Member{Name: name, Port: uint16(i)}
		filtered[i] = vfBool("filtered")
	}
	k := vfInt("k")
	vfAssume(k >= 0)
	vfAssume(k <= 4)
	res := kRandomMembers(k, members, func(m Member) bool { return filtered[m.Port] })
	vfReach("C35.krandom.done")
	vfAssert("C35.krandom.atmost.k", len(res) <= k)
	for a := range res {
		vfAssert("C35.krandom.notfiltered", !filtered[res[a].Port])
		vfAssert("C35.krandom.ismember", int(res[a].Port) < n && members[res[a].Port].Name == res[a].Name)
		for b := a + 1; b < len(res); b++ {
			vfAssert("C35.krandom.distinct", res[a].Name != res[b].Name)
		}
	}
}
