//go:build verif

package serf

import (
	"errors"
	"time"

	"github.com/hashicorp/memberlist"
	"github.com/hashicorp/serf/coordinate"
)

// C20 (serf side): a node caches a peer's coordinate only when it accepted the
// observation. Client.Update itself is checked in the coordinate package
// (VfC20_Update); here it is replaced by "accepts or rejects, arbitrarily".

var vfC20Accept bool

func vfStubCoordUpdate(c *coordinate.Client, node string, other *coordinate.Coordinate, rtt time.Duration) (*coordinate.Coordinate, error) {
	if !vfC20Accept {
		return nil, errors.New("rejected")
	}
	return c.GetCoordinate(), nil
}

//vf:unwind 12
//vf:override (*github.com/hashicorp/serf/coordinate.Client).Update = github.com/hashicorp/serf/serf.vfStubCoordUpdate
//vf:bound inputs payload empty | wrong version byte | undecodable | well-formed; Update accepts or rejects; a previous cache entry for the peer exists or not
//vf:stub msgpack decoder -> queue filled by the harness; coordinate.Client.Update -> arbitrary verdict (its own contract: VfC20_Update in package coordinate)
//vf:nonative
func VfC20_Cache() {
	s := vfNewSerf("self", 1)
	s.config.DisableCoordinates = false
	s.coordClient, _ = coordinate.NewClient(coordinate.DefaultConfig())
	s.coordCache = map[string]*coordinate.Coordinate{}
	var prev *coordinate.Coordinate
	if vfBool("hadEntry") {
		prev = coordinate.NewCoordinate(coordinate.DefaultConfig())
		s.coordCache["peer"] = prev
	}
	vfC20Accept = vfBool("accept")
	sent := coordinate.NewCoordinate(coordinate.DefaultConfig())
	sent.Height = 0.5
	var payload []byte
	kind := vfChoice("payload", 4)
	switch kind {
	case 0:
		payload = nil
	case 1:
		v := vfU8("version")
		vfAssume(v != PingVersion)
		payload = []byte{v, 1, 2}
		vfQueueDecode(sent)
	case 2:
		payload = []byte{PingVersion, 1, 2}
		vfQueueDecode(&messageJoin{}) // body of another type: decode error
	case 3:
		payload = []byte{PingVersion, 1, 2}
		vfQueueDecode(sent)
	}
	p := &pingDelegate{serf: s}
	p.NotifyPingComplete(&memberlist.Node{Name: "peer"}, 5*time.Millisecond, payload)
	vfReach("C20.cache.done")
	got, has := s.coordCache["peer"]
	accepted := kind == 3 && vfC20Accept
	if accepted {
		vfAssert("C20.cache.written", has && got != nil && got.Height == 0.5)
		_, self := s.coordCache["self"]
		vfAssert("C20.cache.self", self)
	} else {
		vfAssert("C20.cache.untouched", has == (prev != nil) && got == prev)
	}
}
