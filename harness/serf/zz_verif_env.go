//go:build verif

package serf

// Shared construction of Serf states for harnesses (skips Create/memberlist.Create).

import (
	"io"
	"log"
	"time"

	"github.com/hashicorp/memberlist"
)

func vfLogger() *log.Logger {
	if vfNative() {
		return log.New(io.Discard, "", 0)
	}
	return nil
}

func vfQueue() *memberlist.TransmitLimitedQueue {
	return &memberlist.TransmitLimitedQueue{NumNodes: func() int { return 3 }, RetransmitMult: 3}
}

// vfNewSerf builds a Serf value directly. bufLen is the event/query buffer length.
var vfEvChs = map[*Serf]chan Event{}

func vfNewSerf(name string, bufLen int) *Serf {
	ch := make(chan Event, 64)
	conf := &Config{
		NodeName:              name,
		ProtocolVersion:       5,
		EventBuffer:           bufLen,
		QueryBuffer:           bufLen,
		EventCh:               ch,
		DisableCoordinates:    true,
		QueryTimeoutMult:      16,
		QueryResponseSizeLimit: 1024,
		QuerySizeLimit:        1024,
		UserEventSizeLimit:    512,
		messageDropper:        func(t messageType) bool { return false },
		MemberlistConfig:      &memberlist.Config{Name: name, GossipInterval: 200 * time.Millisecond},
	}
	s := &Serf{
		config:          conf,
		logger:          vfLogger(),
		members:         make(map[string]*memberState),
		recentIntents:   make(map[string]nodeIntent),
		queryResponse:   make(map[LamportTime]*QueryResponse),
		eventBuffer:     make([]*userEvents, bufLen),
		queryBuffer:     make([]*queries, bufLen),
		shutdownCh:      make(chan struct{}),
		state:           SerfAlive,
		broadcasts:      vfQueue(),
		eventBroadcasts: vfQueue(),
		queryBroadcasts: vfQueue(),
	}
	vfEvChs[s] = ch
	return s
}

var vfNames = [4]string{"m0", "m1", "m2", "m3"}

// vfStatus returns a symbolic member status in {alive, leaving, left, failed}.
func vfStatus(name string) MemberStatus {
	st := MemberStatus(vfInt(name))
	vfAssume(st >= StatusAlive)
	vfAssume(st <= StatusFailed)
	return st
}

// vfMembers fills s with up to n members of symbolic presence, status, status
// time and leave time, and builds failed/left lists consistent with the
// statuses (invariant I15) in a symbolic order.
func vfMembers(s *Serf, n int) []*memberState {
	var all []*memberState
	for i := 0; i < n; i++ {
		if !vfBool("present") {
			all = append(all, nil)
			continue
		}
		m := &memberState{
			Member:      Member{Name: vfNames[i], Status: vfStatus("status"), ProtocolMax: 5, ProtocolCur: 5},
			statusLTime: LamportTime(vfU64("stime")),
			leaveTime:   vfTime("leave"),
		}
		s.members[m.Name] = m
		switch m.Status {
		case StatusFailed:
			s.failedMembers = append(s.failedMembers, m)
		case StatusLeft:
			s.leftMembers = append(s.leftMembers, m)
		}
		all = append(all, m)
	}
	vfShuffle(s.failedMembers)
	vfShuffle(s.leftMembers)
	return all
}

// vfShuffle applies a symbolic permutation (three adjacent swaps generate S3).
func vfShuffle(l []*memberState) {
	if len(l) >= 2 && vfBool("swapA") {
		l[0], l[1] = l[1], l[0]
	}
	if len(l) >= 3 && vfBool("swapB") {
		l[1], l[2] = l[2], l[1]
	}
	if len(l) >= 3 && vfBool("swapC") {
		l[0], l[1] = l[1], l[0]
	}
}

func vfInList(l []*memberState, m *memberState) int {
	n := 0
	for _, x := range l {
		if x == m {
			n++
		}
	}
	return n
}

// vfI15 is the member-bookkeeping invariant: map keys equal record names; the
// failed (left) list holds exactly the records with status failed (left), once
// each, by identity; so the reported counts equal the listed members.
func vfI15(s *Serf) bool {
	ok := true
	nf, nl := 0, 0
	for name, m := range s.members {
		ok = vfAnd(ok, m.Name == name)
		nf += vfB2I(m.Status == StatusFailed)
		nl += vfB2I(m.Status == StatusLeft)
		ok = vfAnd(ok, (vfInList(s.failedMembers, m) == 1) == (m.Status == StatusFailed))
		ok = vfAnd(ok, (vfInList(s.leftMembers, m) == 1) == (m.Status == StatusLeft))
		ok = vfAnd(ok, vfInList(s.failedMembers, m) <= 1)
		ok = vfAnd(ok, vfInList(s.leftMembers, m) <= 1)
	}
	ok = vfAnd(ok, nf == len(s.failedMembers))
	ok = vfAnd(ok, nl == len(s.leftMembers))
	for _, m := range s.failedMembers {
		ok = vfAnd(ok, m != nil && s.members[m.Name] == m)
	}
	for _, m := range s.leftMembers {
		ok = vfAnd(ok, m != nil && s.members[m.Name] == m)
	}
	return ok
}

// vfDrainEvents empties the event channel and returns the events.
func vfDrainEvents(s *Serf) []Event {
	var out []Event
	ch := vfEvChs[s]
	for len(ch) > 0 {
		out = append(out, <-ch)
	}
	return out
}

// vfNode builds a memberlist node notification for name.
func vfNode(name string) *memberlist.Node {
	return &memberlist.Node{Name: name, Addr: []byte{10, 0, 0, 1}, Port: 7946, PMin: 1, PMax: 5, PCur: 2, DMin: 2, DMax: 5, DCur: 5}
}

// vfPickName returns one of the n member names or an unknown name, by symbolic choice.
func vfPickName(n int) string {
	k := vfInt("who")
	vfAssume(k >= 0)
	vfAssume(k <= n)
	for i := 0; i < n; i++ {
		if k == i {
			return vfNames[i]
		}
	}
	return "zz"
}

func vfQueuedLen(q *memberlist.TransmitLimitedQueue, i int) int { return 0 }
