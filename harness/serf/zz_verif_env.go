//go:build verif

package serf

// Shared construction of Serf states for harnesses (skips Create/memberlist.Create).

import (
	"io"
	"log"
	"time"

	"github.com/hashicorp/memberlist"
)

func vfLogger() *log.Logger {
	if vfNative() {
		return log.New(io.Discard, "", 0)
	}
	return nil
}

func vfQueue() *memberlist.TransmitLimitedQueue {
	return &memberlist.TransmitLimitedQueue{NumNodes: func() int { return 3 }, RetransmitMult: 3}
}

// vfNewSerf builds a Serf value directly. bufLen is the event/query buffer length.
var vfEvChs = map[*Serf]chan Event{}

func vfNewSerf(name string, bufLen int) *Serf {
	ch := make(chan Event, 64)
	conf := &Config{
		NodeName:              name,
		ProtocolVersion:       5,
		EventBuffer:           bufLen,
		QueryBuffer:           bufLen,
		EventCh:               ch,
		DisableCoordinates:    true,
		QueryTimeoutMult:      16,
		QueryResponseSizeLimit: 1024,
		QuerySizeLimit:        1024,
		UserEventSizeLimit:    512,
		messageDropper:        func(t messageType) bool { return false },
		MemberlistConfig:      &memberlist.Config{Name: name, GossipInterval: 200 * time.Millisecond},
	}
	s := &Serf{
		config:          conf,
		logger:          vfLogger(),
		members:         make(map[string]*memberState),
		recentIntents:   make(map[string]nodeIntent),
		queryResponse:   make(map[LamportTime]*QueryResponse),
		eventBuffer:     make([]*userEvents, bufLen),
		queryBuffer:     make([]*queries, bufLen),
		shutdownCh:      make(chan struct{}),
		state:           SerfAlive,
		broadcasts:      vfQueue(),
		eventBroadcasts: vfQueue(),
		queryBroadcasts: vfQueue(),
	}
	s.eventJoinIgnore.Store(false)
	vfEvChs[s] = ch
	return s
}

var vfNames = [4]string{"m0", "m1", "m2", "m3"}

// vfStatus returns a symbolic member status in {alive, leaving, left, failed}.
func vfStatus(name string) MemberStatus {
	st := MemberStatus(vfInt(name))
	vfAssume(st >= StatusAlive)
	vfAssume(st <= StatusFailed)
	return st
}

// vfMembers fills s with up to n members of symbolic presence, status, status
// time and leave time, and builds failed/left lists consistent with the
// statuses (invariant I15) in a symbolic order.
func vfMembers(s *Serf, n int) []*memberState {
	var all []*memberState
	for i := 0; i < n; i++ {
		if !vfBool("present") {
			all = append(all, nil)
			continue
		}
		m := &memberState{
			Member:      Member{Name: vfNames[i], Status: vfStatus("status"), ProtocolMax: 5, ProtocolCur: 5},
			statusLTime: LamportTime(vfU64("stime")),
			leaveTime:   vfTime("leave"),
		}
		s.members[m.Name] = m
		switch m.Status {
		case StatusFailed:
			s.failedMembers = append(s.failedMembers, m)
		case StatusLeft:
			s.leftMembers = append(s.leftMembers, m)
		}
		all = append(all, m)
	}
	vfShuffle(s.failedMembers)
	vfShuffle(s.leftMembers)
	return all
}

// vfShuffle applies a symbolic permutation (three adjacent swaps generate S3).
func vfShuffle(l []*memberState) {
	if len(l) >= 2 && vfBool("swapA") {
		l[0], l[1] = l[1], l[0]
	}
	if len(l) >= 3 && vfBool("swapB") {
		l[1], l[2] = l[2], l[1]
	}
	if len(l) >= 3 && vfBool("swapC") {
		l[0], l[1] = l[1], l[0]
	}
	if len(l) >= 4 {
		// the fourth element goes to a symbolic position (with S3 on the rest: every order)
		switch vfChoice("pos4", 4) {
		case 0:
			l[0], l[3] = l[3], l[0]
		case 1:
			l[1], l[3] = l[3], l[1]
		case 2:
			l[2], l[3] = l[3], l[2]
		}
	}
}

func vfInList(l []*memberState, m *memberState) int {
	n := 0
	for _, x := range l {
		if x == m {
			n++
		}
	}
	return n
}

// vfI15 is the member-bookkeeping invariant: map keys equal record names; the
// failed (left) list holds exactly the records with status failed (left), once
// each, by identity; so the reported counts equal the listed members.
func vfI15(s *Serf) bool {
	ok := true
	nf, nl := 0, 0
	for name, m := range s.members {
		ok = vfAnd(ok, m.Name == name)
		nf += vfB2I(m.Status == StatusFailed)
		nl += vfB2I(m.Status == StatusLeft)
		ok = vfAnd(ok, (vfInList(s.failedMembers, m) == 1) == (m.Status == StatusFailed))
		ok = vfAnd(ok, (vfInList(s.leftMembers, m) == 1) == (m.Status == StatusLeft))
		ok = vfAnd(ok, vfInList(s.failedMembers, m) <= 1)
		ok = vfAnd(ok, vfInList(s.leftMembers, m) <= 1)
	}
	ok = vfAnd(ok, nf == len(s.failedMembers))
	ok = vfAnd(ok, nl == len(s.leftMembers))
	for _, m := range s.failedMembers {
		ok = vfAnd(ok, m != nil && s.members[m.Name] == m)
	}
	for _, m := range s.leftMembers {
		ok = vfAnd(ok, m != nil && s.members[m.Name] == m)
	}
	return ok
}

// vfDrainEvents empties the event channel and returns the events.
func vfDrainEvents(s *Serf) []Event {
	var out []Event
	ch := vfEvChs[s]
	for len(ch) > 0 {
		out = append(out, <-ch)
	}
	return out
}

// vfNode builds a memberlist node notification for name.
func vfNode(name string) *memberlist.Node {
	return &memberlist.Node{Name: name, Addr: []byte{10, 0, 0, 1}, Port: 7946, PMin: 1, PMax: 5, PCur: 2, DMin: 2, DMax: 5, DCur: 5}
}

// vfPickName returns one of the n member names or an unknown name, by symbolic choice.
func vfPickName(n int) string {
	k := vfInt("who")
	vfAssume(k >= 0)
	vfAssume(k <= n)
	for i := 0; i < n; i++ {
		if k == i {
			return vfNames[i]
		}
	}
	return "zz"
}

func vfQueuedLen(q *memberlist.TransmitLimitedQueue, i int) int { return 0 }

// ---- arbitrary (symbolic) Serf states for inductive-step harnesses ----

// vfArbEventBuffer fills the event de-duplication buffer (length n) with
// symbolic content: each slot is empty or holds a symbolic time congruent to
// its index with up to 1 recorded event; clock and cut-off symbolic.
func vfArbEventBuffer(s *Serf, n int) {
	s.eventBuffer = make([]*userEvents, n)
	ec := vfU64("eclock")
	vfAssume(ec < 1<<62)
	s.eventClock.counter.Store(ec)
	s.eventMinTime = LamportTime(vfU64("emin"))
	for i := 0; i < n; i++ {
		if vfBool("eslot") {
			t := vfU64("et")
			// representation invariant: recorded times are below the clock and sit in their own slot
			vfAssume(t < ec)
			vfAssume(t%uint64(n) == uint64(i))
			ue := &userEvents{LTime: LamportTime(t)}
			if vfBool("eslot1") {
				ue.Events = append(ue.Events, userEvent{Name: string(vfFixedBytes("en", 1)), Payload: vfFixedBytes("ep", 1)})
			}
			s.eventBuffer[i] = ue
		}
	}
}

// vfArbQueryBuffer: the same for the query buffer (times and ids).
func vfArbQueryBuffer(s *Serf, n int) {
	s.queryBuffer = make([]*queries, n)
	qc := vfU64("qclock")
	vfAssume(qc < 1<<62)
	s.queryClock.counter.Store(qc)
	s.queryMinTime = LamportTime(vfU64("qmin"))
	for i := 0; i < n; i++ {
		if vfBool("qslot") {
			t := vfU64("qt")
			vfAssume(t < qc)
			vfAssume(t%uint64(n) == uint64(i))
			q := &queries{LTime: LamportTime(t)}
			if vfBool("qslot1") {
				q.QueryIDs = append(q.QueryIDs, vfU32("qid"))
			}
			s.queryBuffer[i] = q
		}
	}
}

// vfArbIntents adds up to n buffered intents for unknown node names.
func vfArbIntents(s *Serf, names []string) {
	for _, nm := range names {
		if vfBool("intent") {
			ty := messageJoinType
			if vfBool("intentLeave") {
				ty = messageLeaveType
			}
			s.recentIntents[nm] = nodeIntent{Type: ty, LTime: LamportTime(vfU64("itime")), WallTime: vfTime("iwall")}
		}
	}
}

func vfQueuedTotal(s *Serf) int {
	return s.broadcasts.NumQueued() + s.eventBroadcasts.NumQueued() + s.queryBroadcasts.NumQueued()
}

// vfC04Msg builds an arbitrary gossip message of the given kind
// (0 join intent, 1 leave intent, 2 user event, 3 query) as wire bytes.
// Times are below 2^62: the top of the 64-bit range is C19's subject.
func vfC04Msg(kind int, allowPrune bool) []byte {
	var b []byte
	t := vfU64("mt")
	vfAssume(t < 1<<62)
	switch kind {
	case 0:
		b, _ = encodeMessage(messageJoinType, &messageJoin{LTime: LamportTime(t), Node: vfPickName(vfC04Names)}, false)
	case 1:
		prune := false
		if allowPrune {
			prune = vfBool("prune")
		}
		b, _ = encodeMessage(messageLeaveType, &messageLeave{LTime: LamportTime(t), Node: vfPickName(vfC04Names), Prune: prune}, false)
	case 2:
		b, _ = encodeMessage(messageUserEventType, &messageUserEvent{LTime: LamportTime(t), Name: string(vfFixedBytes("name", 1)), Payload: vfFixedBytes("pl", 1), CC: vfBool("cc")}, false)
	case 3:
		flags := uint32(0)
		if vfBool("nobroadcast") {
			flags |= queryFlagNoBroadcast
		}
		b, _ = encodeMessage(messageQueryType, &messageQuery{LTime: LamportTime(t), ID: vfU32("id"), Addr: []byte{10, 0, 0, 9}, Port: 1,
			SourceNode: "origin", Flags: flags, Timeout: time.Second, Name: "q", Payload: nil}, false)
	}
	return b
}

var vfC04Names = 3

func vfC04Finish(s *Serf, d *delegate, a []byte) {
	q0 := vfQueuedTotal(s)
	vfDrainEvents(s)
	p0 := vfPackets()
	d.NotifyMsg(a)
	vfReach("C04.aba.done")
	vfAssert("C04.aba.norequeue", vfQueuedTotal(s) == q0)
	vfAssert("C05.aba.noredelivery", len(vfDrainEvents(s)) == 0)
	vfAssert("C04.aba.noack", vfPackets() == p0)
}


// vfArbPushPull builds an arbitrary (bounded) push/pull payload as wire bytes:
// status times for up to 2 of the given names, optionally one of them listed as
// left, optionally one recorded user event, symbolic clocks.
func vfArbPushPull(names []string) ([]byte, *messagePushPull) {
	return vfArbPushPullParts(names, true)
}

func vfArbPushPullParts(names []string, withEvents bool) ([]byte, *messagePushPull) {
	pp := &messagePushPull{
		LTime:        LamportTime(vfU64("ppclock") >> 2),
		StatusLTimes: map[string]LamportTime{},
		EventLTime:   LamportTime(vfU64("ppeclock") >> 2),
		QueryLTime:   LamportTime(vfU64("ppqclock") >> 2),
	}
	for _, nm := range names {
		if vfBool("ppHas") {
			pp.StatusLTimes[nm] = LamportTime(vfU64("ppstime") >> 2)
			if vfBool("ppLeft") {
				pp.LeftMembers = append(pp.LeftMembers, nm)
			}
		}
	}
	if withEvents && vfBool("ppEvent") {
		pp.Events = []*userEvents{nil, {LTime: LamportTime(vfU64("ppet") >> 2), Events: []userEvent{{Name: string(vfFixedBytes("ppen", 1)), Payload: vfFixedBytes("ppep", 1)}}}}
	}
	b, _ := encodeMessage(messagePushPullType, pp, false)
	return b, pp
}


// vfEventABA is the user-event ABA scenario shared by C04 and C05.
func vfEventABA() {
	n := 2
	if vfTier() == 1 {
		n = 4 // a power of two like the default 512: time%3 (64-bit bvurem by 3) in every query is beyond the solvers here
	}
	s := vfNewSerf("self", n)
	vfArbEventBuffer(s, n)
	s.eventJoinIgnore.Store(false)
	d := &delegate{serf: s}
	a := vfC04Msg(2, false)
	d.NotifyMsg(a)
	if vfBool("withB") {
		d.NotifyMsg(vfC04Msg(2, false))
	}
	vfC04Finish(s, d, a)
}
