//go:build verif

package serf

// C17: member event coalescing reports only the latest new state of each member.

// VfC17_Seq drives the real memberEventCoalescer with a sequence of member
// events (symbolic kind, symbolic member out of two) with a symbolic flush after
// each, and compares every flush with the reference rule of the property:
// a member is reported iff it had a new event since the previous flush, with the
// kind of the latest one, at most once, and a repeat of the last reported kind is
// suppressed unless it is an update.
//
//vf:unwind 12
//vf:bound events quick=3 thorough=4
//vf:bound members 2 member names, 5 event kinds (symbolic), flush point after every event symbolic
func VfC17_Seq() {
	n := 3
	if vfTier() == 1 {
		n = 4
	}
	c := &memberEventCoalescer{
		lastEvents:   make(map[string]EventType),
		latestEvents: make(map[string]coalesceEvent),
	}
	out := make(chan Event, 16)
	names := [2]string{"a", "b"}
	var pend, last [2]EventType
	var hasPend, hasLast [2]bool
	for step := 0; step < n; step++ {
		k := EventType(vfInt("k"))
		vfAssume(k >= EventMemberJoin)
		vfAssume(k <= EventMemberReap)
		i := 0
		if vfBool("m") {
			i = 1
		}
		ev := MemberEvent{Type: k, Members: []Member{{Name: names[i]}}}
		vfAssert("C17.handle", c.Handle(ev))
		c.Coalesce(ev)
		pend[i], hasPend[i] = k, true
		if step == n-1 || vfBool("flush") {
			c.Flush(out)
			var cnt [2]int
			var kind [2]EventType
			for len(out) > 0 {
				e := (<-out).(MemberEvent)
				for _, m := range e.Members {
					j := 0
					if m.Name == "b" {
						j = 1
					}
					cnt[j]++
					kind[j] = e.Type
				}
			}
			for j := 0; j < 2; j++ {
				if !hasPend[j] {
					vfAssert("C17.noevent.silent", cnt[j] == 0)
					continue
				}
				repeat := vfAnd(vfAnd(hasLast[j], last[j] == pend[j]), pend[j] != EventMemberUpdate)
				vfAssert("C17.atmostonce", cnt[j] <= 1)
				vfAssert("C17.reported.iff.new", (cnt[j] == 1) == !repeat)
				vfAssert("C17.kind.latest", vfImplies(cnt[j] == 1, kind[j] == pend[j]))
				// either way the application's view equals the latest kind now
				last[j], hasLast[j] = pend[j], true
				hasPend[j] = false
			}
			vfReach("C17.flush")
		}
	}
}
