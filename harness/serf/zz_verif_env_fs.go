//go:build verif

package serf

// In-memory file system for the snapshot harnesses (C10-C13). The real
// snapshot code runs unchanged on top of it: os.OpenFile, os.Remove, os.Rename
// and the *os.File methods it uses are redirected here by //vf:override; bufio
// is executed for real on top of these files. Semantics: process-crash model -
// bytes handed to File.Write are durable, bytes still in a bufio buffer are not.
// Every operation is a numbered step: vfCrashAt stops the process there (panic
// caught by the harness), vfFailAt makes that one operation fail.

import (
	"errors"
	"io"
	"net"
	"os"
	"time"
)

type vfInode struct{ data []byte }

type vfHandle struct {
	ino    *vfInode
	pos    int
	closed bool
}

type vfCrash struct{}

// The model's own error values (package os's error variables are not initialised
// under the engine, so os.IsNotExist is redirected to vfIsNotExist).
var (
	vfErrNotExist = errors.New("file does not exist")
	vfErrClosed   = errors.New("file already closed")
	vfErrInvalid  = errors.New("invalid argument")
)

func vfIsNotExist(err error) bool { return err == vfErrNotExist }

var (
	vfDir     map[string]*vfInode
	vfHandles map[*os.File]*vfHandle
	vfOps     int
	vfCrashAt int
	vfFailAt  int
	vfOpLog   []string
)

func vfFSReset() {
	vfDir = map[string]*vfInode{}
	vfHandles = map[*os.File]*vfHandle{}
	vfOps, vfCrashAt, vfFailAt = 0, -1, -1
	vfOpLog = nil
	vfTruncOpens = 0
	vfFailTruncOpens = false
}

// vfStep numbers a file-system operation; crash or inject a fault if it is the chosen one.
func vfStep(kind string) error {
	vfOps++
	vfOpLog = append(vfOpLog, kind)
	if vfOps == vfCrashAt {
		panic(vfCrash{})
	}
	if vfOps == vfFailAt {
		return errors.New(kind + ": injected fault")
	}
	return nil
}

// vfTruncOpens counts opens with O_TRUNC (the first thing a compaction does is to create its temporary file that way).
var vfTruncOpens int

// vfFailTruncOpens: every open with O_TRUNC fails (a compaction can never create its temporary file:
// full disk, permissions, something in the way at that path) - a persistent fault, unlike vfFailAt.
var vfFailTruncOpens bool

func vfOpenFile(name string, flag int, perm os.FileMode) (*os.File, error) {
	if flag&os.O_TRUNC != 0 {
		vfTruncOpens++
		if vfFailTruncOpens {
			vfOps++
			return nil, errors.New("open: injected persistent fault")
		}
	}
	if err := vfStep("open"); err != nil {
		return nil, err
	}
	ino := vfDir[name]
	if ino == nil {
		if flag&os.O_CREATE == 0 {
			return nil, vfErrNotExist
		}
		ino = &vfInode{}
		vfDir[name] = ino
	}
	if flag&os.O_TRUNC != 0 {
		ino.data = nil
	}
	f := &os.File{}
	vfHandles[f] = &vfHandle{ino: ino}
	return f, nil
}

func vfRemove(name string) error {
	if err := vfStep("remove"); err != nil {
		return err
	}
	if vfDir[name] == nil {
		return vfErrNotExist
	}
	delete(vfDir, name)
	return nil
}

func vfRename(oldpath, newpath string) error {
	if err := vfStep("rename"); err != nil {
		return err
	}
	ino := vfDir[oldpath]
	if ino == nil {
		return vfErrNotExist
	}
	vfDir[newpath] = ino
	delete(vfDir, oldpath)
	return nil
}

func vfHandleOf(f *os.File) (*vfHandle, error) {
	if f == nil {
		return nil, vfErrInvalid
	}
	h := vfHandles[f]
	if h == nil || h.closed {
		return nil, vfErrClosed
	}
	return h, nil
}

func vfFileWrite(f *os.File, b []byte) (int, error) {
	h, err := vfHandleOf(f)
	if err != nil {
		return 0, err
	}
	if err := vfStep("write"); err != nil {
		return 0, err
	}
	h.ino.data = append(h.ino.data, b...) // O_APPEND (every writer of the snapshot appends)
	return len(b), nil
}

// vfFileWriteString: (*os.File).WriteString (bufio passes a string straight through when its buffer is empty).
func vfFileWriteString(f *os.File, s string) (int, error) { return vfFileWrite(f, []byte(s)) }

func vfFileRead(f *os.File, b []byte) (int, error) {
	h, err := vfHandleOf(f)
	if err != nil {
		return 0, err
	}
	if h.pos >= len(h.ino.data) {
		return 0, io.EOF
	}
	n := copy(b, h.ino.data[h.pos:])
	h.pos += n
	return n, nil
}

func vfFileSeek(f *os.File, offset int64, whence int) (int64, error) {
	h, err := vfHandleOf(f)
	if err != nil {
		return 0, err
	}
	switch whence {
	case io.SeekStart:
		h.pos = int(offset)
	case io.SeekEnd:
		h.pos = len(h.ino.data) + int(offset)
	}
	return int64(h.pos), nil
}

func vfFileSync(f *os.File) error {
	if _, err := vfHandleOf(f); err != nil {
		return err
	}
	return vfStep("sync")
}

func vfFileClose(f *os.File) error {
	h, err := vfHandleOf(f)
	if err != nil {
		return err
	}
	// the descriptor is gone whatever close(2) reports
	h.closed = true
	return vfStep("close")
}

type vfFInfo struct{ size int64 }

func (i vfFInfo) Name() string       { return "snapshot" }
func (i vfFInfo) Size() int64        { return i.size }
func (i vfFInfo) Mode() os.FileMode  { return 0644 }
func (i vfFInfo) ModTime() time.Time { return time.Time{} }
func (i vfFInfo) IsDir() bool        { return false }
func (i vfFInfo) Sys() any           { return nil }

func vfFileStat(f *os.File) (os.FileInfo, error) {
	h, err := vfHandleOf(f)
	if err != nil {
		return nil, err
	}
	if err := vfStep("stat"); err != nil {
		return nil, err
	}
	return vfFInfo{size: int64(len(h.ino.data))}, nil
}

// vfFileBytes: current (durable) content of a path, nil if absent.
func vfFileBytes(name string) ([]byte, bool) {
	ino := vfDir[name]
	if ino == nil {
		return nil, false
	}
	return ino.data, true
}

func vfStat(name string) (os.FileInfo, error) {
	ino := vfDir[name]
	if ino == nil {
		return nil, vfErrNotExist
	}
	return vfFInfo{size: int64(len(ino.data))}, nil
}

// vfRestartProcess: the process died; open handles are gone, the directory stays.
func vfRestartProcess() {
	vfHandles = map[*os.File]*vfHandle{}
	vfCrashAt, vfFailAt = -1, -1
	vfFailTruncOpens = false
}

// vfRunUntilCrash runs f; returns true if the injected crash stopped it.
func vfRunUntilCrash(f func()) (crashed bool) {
	defer func() {
		if r := recover(); r != nil {
			if _, ok := r.(vfCrash); ok {
				crashed = true
				return
			}
			panic(r)
		}
	}()
	f()
	return false
}

// ---- snapshotter construction shared by C10-C13 --------------------------------

const vfSnapPath = "/snap/local.snapshot"

var vfAddrs = [2]net.IP{{10, 0, 0, 1}, {10, 0, 0, 2}}

// vfSnapOpen opens a snapshotter through the real constructor.
func vfSnapOpen(minCompact int, rejoin bool, clock *LamportClock) *Snapshotter {
	_, snap, err := NewSnapshotter(vfSnapPath, minCompact, rejoin, nil, clock, nil, make(chan struct{}))
	vfAssert("snap.open.ok", err == nil && snap != nil)
	return snap
}

// vfSnapArbitrary: a snapshotter whose memory holds an arbitrary state (0..2 alive
// nodes with symbolic 1-byte names, symbolic clocks) and whose file is what the
// real compaction writes for that state.
func vfSnapArbitrary(clock *LamportClock, rejoin bool) *Snapshotter {
	s := vfSnapOpen(vfInt("minCompact"), rejoin, clock)
	for i := 0; i < 2; i++ {
		if vfBool("alive") {
			name := string(vfFixedBytes("name", 1))
			s.aliveNodes[name] = (&net.TCPAddr{IP: vfAddrs[i], Port: 7946}).String()
		}
	}
	s.lastClock = LamportTime(vfU64("lastClock"))
	s.lastEventClock = LamportTime(vfU64("lastEventClock"))
	s.lastQueryClock = LamportTime(vfU64("lastQueryClock"))
	vfAssert("snap.canonical.compact.ok", s.compact() == nil)
	return s
}

func vfSameNodes(got []*PreviousNode, want map[string]string) bool {
	ok := len(got) == len(want)
	for _, n := range got {
		a, has := want[n.Name]
		ok = vfAnd(ok, has)
		if has {
			ok = vfAnd(ok, a == n.Addr)
		}
	}
	return ok
}

// vfSnapRestartMatches restarts from the file and compares with memory.
func vfSnapRestartMatches(s *Snapshotter, pfx string) {
	mem := map[string]string{}
	for k, v := range s.aliveNodes {
		mem[k] = v
	}
	lc, le, lq := s.lastClock, s.lastEventClock, s.lastQueryClock
	var c2 LamportClock
	r := vfSnapOpen(1<<30, false, &c2)
	vfReach(pfx + ".restarted")
	vfAssert(pfx+".nodes", vfSameNodes(r.AliveNodes(), mem))
	vfAssert(pfx+".clock", r.LastClock() == lc)
	vfAssert(pfx+".event.clock", r.LastEventClock() == le)
	vfAssert(pfx+".query.clock", r.LastQueryClock() == lq)
}

