//go:build verif

package serf

import "time"

// C15: member bookkeeping stays consistent and reaping is exact.
// Inductive step: from ANY state satisfying the invariant I15 (vfI15), every
// handler re-establishes it; so it holds after histories of any length.

// vfC15N: members in the arbitrary pre-state (quick 3, thorough 4).
func vfC15N() int { return 3 + vfTier() }

func vfC15Pre() (*Serf, []*memberState) { return vfC15PreN(vfC15N()) }

func vfC15PreN(n int) (*Serf, []*memberState) {
	s := vfNewSerf("self", 4)
	all := vfMembers(s, n)
	vfAssert("C15.pre.I15", vfI15(s)) // the constructed pre-states satisfy the invariant (sanity)
	return s, all
}

func vfC15Post(s *Serf, id string) {
	vfAssert(id, vfI15(s))
}

//vf:unwind 12
//vf:bound members quick=3 thorough=4 members of symbolic presence/status/times, lists in symbolic order; node = any member or an unknown name
func VfC15_Join() {
	s, _ := vfC15Pre()
	s.handleNodeJoin(vfNode(vfPickName(vfC15N())))
	vfC15Post(s, "C15.join.I15")
}

//vf:unwind 12
//vf:bound members quick=3 thorough=4
func VfC15_Leave() {
	s, _ := vfC15Pre()
	s.handleNodeLeave(vfNode(vfPickName(vfC15N())))
	vfC15Post(s, "C15.leave.I15")
}

//vf:unwind 12
//vf:bound members quick=3 thorough=4
func VfC15_Update() {
	s, _ := vfC15Pre()
	s.handleNodeUpdate(vfNode(vfPickName(vfC15N())))
	vfC15Post(s, "C15.update.I15")
}

//vf:unwind 12
//vf:bound members quick=3 thorough=4; leave intent with symbolic time and prune flag
func VfC15_LeaveIntent() {
	s, all := vfC15Pre()
	who := vfPickName(vfC15N())
	prune := vfBool("prune")
	ltime := LamportTime(vfU64("ltime"))
	var before *memberState
	for _, m := range all {
		if m != nil && m.Name == who {
			before = m
		}
	}
	newer := before != nil && ltime > before.statusLTime
	s.handleNodeLeaveIntent(&messageLeave{LTime: ltime, Node: who, Prune: prune})
	vfC15Post(s, "C15.leaveintent.I15")
	if before != nil {
		_, still := s.members[who]
		// a pruned member disappears from the list (and from both lists, by I15)
		vfAssert("C15.prune.gone", vfImplies(vfAnd(prune, newer), !still))
		vfAssert("C15.noprune.stays", vfImplies(!prune, still))
	}
}

//vf:unwind 12
//vf:bound members quick=3 thorough=4
func VfC15_JoinIntent() {
	s, _ := vfC15Pre()
	s.handleNodeJoinIntent(&messageJoin{LTime: LamportTime(vfU64("ltime")), Node: vfPickName(vfC15N())})
	vfC15Post(s, "C15.joinintent.I15")
}

type vfOverride struct {
	use bool
	has [4]bool // member i has an override of its own; others get the default passed in
	d   [4]time.Duration
}

func (o *vfOverride) ReconnectTimeout(m *Member, timeout time.Duration) time.Duration {
	if !o.use {
		return timeout
	}
	for i := range vfNames {
		if m.Name == vfNames[i] && o.has[i] {
			return o.d[i]
		}
	}
	return timeout
}

// VfC15_Reap: reap(list, now, timeout) with a symbolic per-member override
// removes exactly the listed members older than their timeout, emits exactly
// one reap event for each and none for anybody else, and keeps I15.
//
//vf:unwind 12
//vf:bound members 3; symbolic now, leave times, timeout and per-member overrides (durations in [0,2^61) ns)
func VfC15_Reap() {
	s, all := vfC15PreN(3) // 4 members: > 400 000 paths in 10 min, not finished
	ov := &vfOverride{use: vfBool("useOverride")}
	for i := 0; i < 3; i++ {
		ov.has[i] = vfBool("hasov")
		ov.d[i] = time.Duration(vfI64("ov"))
		vfAssume(ov.d[i] >= 0)
		vfAssume(ov.d[i] < 1<<61)
	}
	s.config.ReconnectTimeoutOverride = ov
	now := vfTime("now")
	timeout := time.Duration(vfI64("timeout"))
	vfAssume(timeout >= 0)
	vfAssume(timeout < 1<<61)
	failedList := vfBool("failedList")
	var list []*memberState
	if failedList {
		list = s.failedMembers
	} else {
		list = s.leftMembers
	}
	pre := append([]*memberState(nil), list...)
	var expired [4]bool
	for i, m := range all {
		if m != nil && vfInList(pre, m) == 1 {
			tmo := timeout
			if ov.use && ov.has[i] {
				tmo = ov.d[i]
			}
			expired[i] = now.Sub(m.leaveTime) > tmo
		}
	}
	res := s.reap(list, now, timeout)
	if failedList {
		s.failedMembers = res
	} else {
		s.leftMembers = res
	}
	evs := vfDrainEvents(s)
	for i, m := range all {
		if m == nil {
			continue
		}
		reaps := 0
		for _, e := range evs {
			me, ok := e.(MemberEvent)
			vfAssert("C15.reap.eventkind", ok && me.Type == EventMemberReap && len(me.Members) == 1)
			if ok && len(me.Members) == 1 && me.Members[0].Name == m.Name {
				reaps++
			}
		}
		_, still := s.members[m.Name]
		if vfInList(pre, m) == 1 {
			vfAssert("C15.reap.exact.list", (vfInList(res, m) == 0) == expired[i])
			vfAssert("C15.reap.exact.map", still == !expired[i])
			vfAssert("C15.reap.oneevent", (reaps == 1) == expired[i])
			vfAssert("C15.reap.atmostone", reaps <= 1)
		} else {
			vfAssert("C15.reap.others.untouched", still && reaps == 0)
		}
	}
	vfReach("C15.reap.done")
	vfC15Post(s, "C15.reap.I15")
}
