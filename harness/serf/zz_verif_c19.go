//go:build verif

package serf

// C19: Lamport clocks never go backwards and witnessing moves them past the value.

// VfC19_WitnessSequential: from any clock value, Witness(v) never moves the
// clock backwards and leaves it strictly greater than v.
//
//vf:unwind 3
//vf:bound clock all 2^64 pre-states, all 2^64 witnessed values
func VfC19_WitnessSequential() {
	var l LamportClock
	l.counter.Store(vfU64("c"))
	v := LamportTime(vfU64("v"))
	before := l.Time()
	l.Witness(v)
	after := l.Time()
	vfReach("C19.seq.reach")
	vfAssert("C19.seq.mono", after >= before)
	vfAssert("C19.seq.past", after > v)
}

// VfC19_IncrementSequential: Increment returns a value one past the previous
// reading and the clock equals the returned value afterwards.
//
//vf:bound clock all 2^64 pre-states
func VfC19_IncrementSequential() {
	var l LamportClock
	c := vfU64("c")
	l.counter.Store(c)
	before := l.Time()
	r := l.Increment()
	after := l.Time()
	vfAssert("C19.inc.mono", after >= before)
	vfAssert("C19.inc.ret", r == after)
	vfAssert("C19.inc.strict", r > before)
}

// VfC19_Concurrent: two goroutines each perform one symbolic operation
// (Time / Increment / Witness(v)) on a shared clock, under every interleaving
// at the atomic operations. The clock never moves backwards (sampled by both
// threads around every operation), increments return distinct values and a
// completed Witness(v) leaves the clock above v.
//
//vf:sched
//vf:switches quick=3 thorough=4
//vf:unwind 4
//vf:bound threads 2 threads x 1 operation each, scheduling point at every atomic operation
//vf:nonative
//vf:bound values clock and witnessed values below 2^63 (the wrap at the top of the range is decided by the sequential harnesses)
func VfC19_Concurrent() {
	var l LamportClock
	l.counter.Store(vfU64("c"))
	var r [2]LamportTime
	var isInc [2]bool
	var mono [2]bool
	var past [2]bool
	op := func(i int, kind int, v LamportTime) {
		before := l.Time()
		past[i] = true
		switch kind {
		case 0:
			r[i] = l.Time()
		case 1:
			r[i] = l.Increment()
			isInc[i] = true
		case 2:
			l.Witness(v)
			past[i] = l.Time() > v
		}
		after := l.Time()
		mono[i] = after >= before
	}
	k0, k1 := vfChoice("op0", 3), vfChoice("op1", 3)
	v0, v1 := LamportTime(vfU64("v0")), LamportTime(vfU64("v1"))
	// the top of the range (wrap/saturation) is the sequential harnesses' subject
	vfAssume(l.Time() < 1<<63)
	vfAssume(v0 < 1<<63)
	vfAssume(v1 < 1<<63)
	vfGo(func() { op(1, k1, v1) })
	op(0, k0, v0)
	vfWaitThreads()
	vfReach("C19.conc.reach")
	vfAssert("C19.conc.mono", vfAnd(mono[0], mono[1]))
	vfAssert("C19.conc.past", vfAnd(past[0], past[1]))
	vfAssert("C19.conc.distinct", vfImplies(vfAnd(isInc[0], isInc[1]), r[0] != r[1]))
}
