//go:build verif

package serf

import "time"

// C16: applications see each member's events in the order they happened.
//
// Compositional: (1) every member event is handed to the event channel while
// the member lock is write-held and after the status change it reports, so the
// order on the channel IS the order of status changes; each later stage is a
// sequential loop reading one channel and writing one channel, so it is enough
// to show per stage that it forwards in order: (2) the snapshot tee, (3) the
// internal-query filter (VfC08_Internal, shared with C08), (4) the coalescer.

// VfC16_SendUnderLock: the handler runs as a thread with an UNBUFFERED event
// channel, so it is parked exactly at its send; at that instant the member lock
// must be write-held and the member's status must already be the reported one.
//
//vf:sched
//vf:switches quick=1 thorough=2
//vf:paths quick=400000 thorough=4000000
//vf:unwind 16
//vf:bound state 1 member of symbolic status; handler: memberlist join | leave | update | leave intent (force-leave of a failed member, with or without prune) | reap
//vf:nonative
func VfC16_SendUnderLock() {
	ch := make(chan Event)
	s := vfNewSerf("self", 1)
	s.config.EventCh = ch
	all := vfMembers(s, 1)
	kind := vfChoice("handler", 5)
	prune := false
	if kind == 3 {
		prune = vfBool("prune")
	}
	vfGo(func() {
		switch kind {
		case 0:
			s.handleNodeJoin(vfNode("m0"))
		case 1:
			s.handleNodeLeave(vfNode("m0"))
		case 2:
			s.handleNodeUpdate(vfNode("m0"))
		case 3:
			s.handleNodeLeaveIntent(&messageLeave{LTime: LamportTime(vfU64("lt")), Node: "m0", Prune: prune})
		case 4:
			s.memberLock.Lock()
			s.failedMembers = s.reap(s.failedMembers, time.Now().Add(time.Hour*100), time.Hour)
			s.memberLock.Unlock()
		}
		close(ch)
	})
	n := 0
	for e := range ch {
		n++
		me, ok := e.(MemberEvent)
		vfAssert("C16.lock.is.member.event", ok && len(me.Members) == 1)
		vfAssert("C16.lock.held.at.send", vfHeld(&s.memberLock))
		if ok && len(me.Members) == 1 {
			cur, listed := s.members[me.Members[0].Name]
			switch me.Type {
			case EventMemberJoin:
				vfAssert("C16.status.before.event.join", listed && cur.Status == StatusAlive)
			case EventMemberLeave:
				vfAssert("C16.status.before.event.leave", listed && cur.Status == StatusLeft)
			case EventMemberFailed:
				vfAssert("C16.status.before.event.failed", listed && cur.Status == StatusFailed)
			case EventMemberReap:
				vfAssert("C16.status.before.event.reap", !listed)
			}
		}
	}
	vfWaitThreads()
	vfReach("C16.lock.done")
	// one status change, one event; a force-leave with prune of a failed member is two changes (left, then erased)
	vfAssert("C16.lock.atmostone", n <= 1 || (prune && n == 2))
	_ = all
}

// VfC16_Tee: the snapshot tee forwards what it receives to the application in
// order; an event is missing only if the application channel was full.
//
//vf:sched
//vf:switches quick=1 thorough=2
//vf:paths quick=400000 thorough=4000000
//vf:unwind 16
//vf:bound events 3 events; application channel of capacity 2 drained or not before shutdown
//vf:nonative
func VfC16_Tee() {
	out := make(chan Event, 2)
	shutdown := make(chan struct{})
	in := make(chan Event, 8)
	sn := &Snapshotter{inCh: in, streamCh: make(chan Event, 8), outCh: out, shutdownCh: shutdown}
	vfGo(func() { sn.teeStream() })
	var got []int
	for i := 0; i < 3; i++ {
		in <- UserEvent{LTime: LamportTime(i)}
		if vfBool("drain") {
			for len(in) > 0 {
				vfYieldTo()
			}
			for len(out) > 0 {
				got = append(got, int((<-out).(UserEvent).LTime))
			}
		}
	}
	close(shutdown)
	vfWaitThreads()
	for len(out) > 0 {
		got = append(got, int((<-out).(UserEvent).LTime))
	}
	vfReach("C16.tee.done")
	for i := 1; i < len(got); i++ {
		vfAssert("C16.tee.order", got[i-1] < got[i])
	}
	// the internal stream gets them in order as well
	last := -1
	for len(sn.streamCh) > 0 {
		lt := int((<-sn.streamCh).(UserEvent).LTime)
		vfAssert("C16.tee.stream.order", lt > last)
		last = lt
	}
	vfAssert("C16.tee.first.never.dropped", len(got) >= 1 && got[0] == 0)
}

// VfC16_Coalesce: the member coalescer inside the real coalesceLoop: 3 events
// over 2 members, timers firing at arbitrary points, then shutdown. Per member:
// the kinds the application sees form an in-order subsequence of the kinds that
// happened, and the last one seen is the last one that happened.
//
//vf:sched
//vf:switches quick=1 thorough=2
//vf:paths quick=800000 thorough=8000000
//vf:unwind 24
//vf:lazytimers
//vf:bound events 3 events for one member (kind join | failed | update) + 1 join of another member at any position; the producer pauses or not after each; quantum and quiescent timers fire whenever the loop is idle
//vf:nonative
func VfC16_Coalesce() {
	in := make(chan Event, 8)
	out := make(chan Event, 16)
	shutdown := make(chan struct{})
	c := &memberEventCoalescer{lastEvents: make(map[string]EventType), latestEvents: make(map[string]coalesceEvent)}
	vfGo(func() { coalesceLoop(in, out, shutdown, time.Second, time.Second, c) })
	names := [2]string{"m0", "m1"}
	var recv [2][]EventType
	kinds := [3]EventType{EventMemberJoin, EventMemberFailed, EventMemberUpdate}
	other := vfChoice("otherAt", 4) // where the other member's single event goes (3: never)
	for i := 0; i < 3; i++ {
		if other == i {
			recv[1] = append(recv[1], EventMemberJoin)
			in <- MemberEvent{Type: EventMemberJoin, Members: []Member{{Name: "m1"}}}
		}
		k := kinds[vfChoice("kind", 3)]
		recv[0] = append(recv[0], k)
		in <- MemberEvent{Type: k, Members: []Member{{Name: "m0"}}}
		if i < 2 && vfBool("pause") {
			// the producer pauses: the loop drains its input and a timer may fire (flush)
			for len(in) > 0 {
				vfYieldTo()
			}
			vfYieldTo()
		}
	}
	for len(in) > 0 {
		vfYieldTo()
	}
	close(shutdown)
	vfWaitThreads()
	var seen [2][]EventType
	for len(out) > 0 {
		me := (<-out).(MemberEvent)
		for _, m := range me.Members {
			for w := range names {
				if m.Name == names[w] {
					seen[w] = append(seen[w], me.Type)
				}
			}
		}
	}
	vfReach("C16.coalesce.done")
	for w := range names {
		// in-order subsequence
		j := 0
		for _, k := range seen[w] {
			for j < len(recv[w]) && recv[w][j] != k {
				j++
			}
			vfAssert("C16.coalesce.subsequence", j < len(recv[w]))
			j++
		}
		if len(recv[w]) > 0 {
			vfAssert("C16.coalesce.last.matches", len(seen[w]) > 0 && seen[w][len(seen[w])-1] == recv[w][len(recv[w])-1])
		} else {
			vfAssert("C16.coalesce.nothing.invented", len(seen[w]) == 0)
		}
	}
}
