//go:build verif

package serf

import "time"

// (own file and own helpers: this harness must keep compiling when the private fields of QueryResponse change)

var vfC07SeqNames = [2]string{"a", "b"}

// VfC07_Seq3: three arbitrary replies in a row against one open query, built and
// observed through the public API only (newQueryResponse, handleQueryResponse,
// AckCh/ResponseCh), so the check does not depend on how QueryResponse keeps
// its books: whatever the order of acks, responses and (relayed) duplicates,
// the streams carry at most one ack and one response per node and nothing
// from a reply that names another query.
//
//vf:unwind 16
//vf:paths quick=400000 thorough=4000000
//vf:bound replies quick=3 thorough=4 replies, each: ack or response, from one of 2 nodes, for this query or with another id; ack requested or not
//vf:nonative
func VfC07_Seq3() {
	vfFixClock() // the deadline is VfC07_Step's subject; here all replies are in time
	s := vfNewSerf("self", 1)
	wantAck := vfBool("wantAck")
	flags := uint32(0)
	if wantAck {
		flags |= queryFlagAck
	}
	lt, id := LamportTime(7), uint32(9)
	r := newQueryResponse(8, &messageQuery{LTime: lt, ID: id, Flags: flags, Timeout: time.Hour})
	s.queryResponse[lt] = r
	var wantA, wantR [2]bool
	for k := 0; k < 3+vfTier(); k++ {
		from := vfChoice("from", 2)
		isAck := vfBool("isAck")
		mine := vfBool("mine")
		rid := id
		if !mine {
			rid = id + 1
		}
		f := uint32(0)
		if isAck {
			f |= queryFlagAck
		}
		s.handleQueryResponse(&messageQueryResponse{LTime: lt, ID: rid, From: vfC07SeqNames[from], Flags: f, Payload: []byte{byte(k)}})
		if mine {
			if isAck {
				wantA[from] = wantA[from] || wantAck
			} else {
				wantR[from] = true
			}
		}
	}
	r.Close()
	var gotA, gotR [2]int
	other := 0
	if ch := r.AckCh(); ch != nil {
		for a := range ch {
			switch a {
			case vfC07SeqNames[0]:
				gotA[0]++
			case vfC07SeqNames[1]:
				gotA[1]++
			default:
				other++
			}
		}
	}
	for nr := range r.ResponseCh() {
		switch nr.From {
		case vfC07SeqNames[0]:
			gotR[0]++
		case vfC07SeqNames[1]:
			gotR[1]++
		default:
			other++
		}
	}
	vfReach("C07.seq3.done")
	for i := 0; i < 2; i++ {
		vfAssert("C07.seq3.ack.once", gotA[i] == vfB2I(wantA[i]))
		vfAssert("C07.seq3.response.once", gotR[i] == vfB2I(wantR[i]))
	}
	vfAssert("C07.seq3.nobody.else", other == 0)
}
