//go:build verif

package serf

import (
	"strings"
	"time"
)

// C08: queries reach exactly the nodes their filters select.

type vfC08F struct {
	kind  int
	nodes filterNode
	tag   filterTag
}

// vfC08Filter builds one filter as wire bytes: a node-name list, a tag filter,
// an undecodable body of either kind, or an unknown kind byte.
func vfC08Filter() ([]byte, vfC08F) {
	f := vfC08F{kind: vfChoice("fkind", 5)}
	var buf []byte
	switch f.kind {
	case 0:
		n := 1 + vfChoice("nnodes", 2)
		for i := 0; i < n; i++ {
			if vfBool("nodeIsSelf") {
				f.nodes = append(f.nodes, "self")
			} else {
				f.nodes = append(f.nodes, "other")
			}
		}
		buf, _ = encodeFilter(filterNodeType, f.nodes)
	case 1:
		if vfBool("ftagPresent") {
			f.tag.Tag = "role"
		} else {
			f.tag.Tag = "zz"
		}
		f.tag.Expr = string(vfFixedBytes("expr", 1))
		buf, _ = encodeFilter(filterTagType, f.tag)
	case 2: // node kind byte, body is not a node list
		buf, _ = encodeFilter(filterNodeType, filterTag{Tag: "role", Expr: "x"})
	case 3: // tag kind byte, body is not a tag filter
		buf, _ = encodeFilter(filterTagType, filterNode{"self"})
	case 4: // unknown kind byte
		buf, _ = encodeFilter(filterNodeType, filterNode{"self"})
		k := vfU8("kindbyte")
		vfAssume(k != uint8(filterNodeType))
		vfAssume(k != uint8(filterTagType))
		buf[0] = k
	}
	return buf, f
}

func vfC08Tags(s *Serf) {
	s.config.Tags = map[string]string{}
	if vfBool("hasRole") {
		s.config.Tags["role"] = string(vfFixedBytes("role", 1))
	}
	s.config.Tags["dc"] = "x"
}

// vfC08Selected is the reference predicate, evaluated over the outcomes the
// regexp stub actually returned (call log), in filter order.
func vfC08Selected(s *Serf, fs []vfC08F) bool {
	sel := true
	mi := 0
	for _, f := range fs {
		if !sel {
			break
		}
		switch f.kind {
		case 0:
			found := false
			for _, n := range f.nodes {
				if n == "self" {
					found = true
				}
			}
			sel = found
		case 1:
			ok := vfMatchCount() > mi
			vfAssert("C08.filter.regex.called", ok)
			if !ok {
				return false
			}
			want := s.config.Tags[f.tag.Tag] // missing tag counts as empty
			vfAssert("C08.filter.regex.args", vfMatchExpr(mi) == f.tag.Expr && vfMatchSubject(mi) == want)
			sel = vfAnd(!vfMatchErr(mi), vfMatchResult(mi))
			mi++
		default:
			sel = false
		}
	}
	vfAssert("C08.filter.regex.nomore", vfMatchCount() == mi)
	return sel
}

// vfC08Run delivers one query with the given filters into s and checks the
// whole contract against the reference; first says whether the pre-state makes
// this the first sighting.
func vfC08Run(s *Serf, filters [][]byte, fs []vfC08F, t uint64, id uint32, first bool) {
	flags := uint32(0)
	wantAck, noBroadcast := vfBool("ack"), vfBool("nobroadcast")
	if wantAck {
		flags |= queryFlagAck
	}
	if noBroadcast {
		flags |= queryFlagNoBroadcast
	}
	q := &messageQuery{LTime: LamportTime(t), ID: id, Addr: []byte{10, 0, 0, 9}, Port: 1, SourceNode: "origin",
		Filters: filters, Flags: flags, Timeout: time.Second, Name: "q", Payload: []byte{7}}
	rb := s.handleQuery(q)
	evs := vfDrainEvents(s)
	vfReach("C08.filter.done")
	// re-broadcast on first sight regardless of the filters
	vfAssert("C08.rebroadcast", rb == vfAnd(first, !noBroadcast))
	if first {
		sel := vfC08Selected(s, fs)
		vfAssert("C08.delivered.iff.selected", (len(evs) == 1) == sel)
		vfAssert("C08.ack.iff", (vfPackets() == 1) == vfAnd(sel, wantAck))
		vfAssert("C08.ack.atmostone", vfPackets() <= 1)
		if len(evs) == 1 {
			dq, ok := evs[0].(*Query)
			vfAssert("C08.delivered.same", ok && dq.LTime == LamportTime(t) && dq.Name == "q" && len(dq.Payload) == 1 && dq.Payload[0] == 7 && dq.id == id)
		}
	} else {
		vfAssert("C08.notfirst.nothing", len(evs) == 0 && vfPackets() == 0 && vfMatchCount() == 0)
	}
	vfAssert("C08.atmostone", len(evs) <= 1)
	// the same query again: nothing delivered, acknowledged or re-broadcast
	p0 := vfPackets()
	rb2 := s.handleQuery(q)
	vfAssert("C08.second.nothing", len(vfDrainEvents(s)) == 0 && vfPackets() == p0 && !rb2)
}

// VfC08_Filter: one first-seen query with <=2 arbitrary filters and arbitrary flags.
//
//vf:unwind 16
//vf:paths quick=400000 thorough=4000000
//vf:bound inputs <=2 filters (node list of 1-2 names | tag filter on a present/absent tag with a 1-byte pattern | undecodable body of either kind | unknown kind byte); local tag present or not with a 1-byte value; flags symbolic; query time below 2^62
//vf:stub codec -> identity on tokens; regexp.MatchString -> uninterpreted outcome per call (logged); transport recorded
//vf:outside regular-expression semantics; the de-duplication state (VfC08_Dedup)
//vf:nonative
func VfC08_Filter() {
	s := vfNewSerf("self", 2)
	vfC08Tags(s)
	nf := vfChoice("nfilters", 3)
	var filters [][]byte
	var fs []vfC08F
	for i := 0; i < nf; i++ {
		b, f := vfC08Filter()
		filters = append(filters, b)
		fs = append(fs, f)
	}
	t := vfU64("mt")
	vfAssume(t < 1<<62)
	vfC08Run(s, filters, fs, t, vfU32("id"), true)
}

// VfC08_Dedup: an arbitrary de-duplication state decides first sight; the
// filter (selecting or excluding) must not influence the re-broadcast decision.
//
//vf:unwind 16
//vf:paths quick=400000 thorough=4000000
//vf:bound state query buffer of length 2 with symbolic content, symbolic clock and cut-off; query time below 2^62; filter: none | node list selecting | node list excluding
//vf:stub codec -> identity on tokens; transport recorded
//vf:nonative
func VfC08_Dedup() {
	s := vfNewSerf("self", 2)
	vfArbQueryBuffer(s, 2)
	s.config.Tags = map[string]string{}
	var filters [][]byte
	var fs []vfC08F
	switch vfChoice("filter", 3) {
	case 1:
		b, _ := encodeFilter(filterNodeType, filterNode{"self"})
		filters, fs = append(filters, b), append(fs, vfC08F{kind: 0, nodes: filterNode{"self"}})
	case 2:
		b, _ := encodeFilter(filterNodeType, filterNode{"other"})
		filters, fs = append(filters, b), append(fs, vfC08F{kind: 0, nodes: filterNode{"other"}})
	}
	t := vfU64("mt")
	vfAssume(t < 1<<62)
	id := vfU32("id")
	// first-seen, from the pre-state
	clock := uint64(s.queryClock.Time())
	after := vfIteU64(t >= clock, t+1, clock)
	beforeMin := t < uint64(s.queryMinTime)
	tooOld := vfAnd(after > 2, t < after-2)
	recorded := false
	for _, slot := range s.queryBuffer {
		if slot != nil {
			for _, q := range slot.QueryIDs {
				recorded = vfOr(recorded, vfAnd(uint64(slot.LTime) == t, q == id))
			}
		}
	}
	first := vfAnd(vfAnd(!beforeMin, !tooOld), !recorded)
	vfC08Run(s, filters, fs, t, id, first)
}

// VfC08_Internal: the internal-query stage in front of the application never
// forwards a query whose name carries the internal prefix, and forwards every
// other event unchanged and in order.
//
//vf:sched
//vf:switches quick=1 thorough=2
//vf:paths quick=400000 thorough=4000000
//vf:unwind 16
//vf:bound inputs 3 events, each an internal query (ping or unknown internal name), a user query or a user event
//vf:nonative
func VfC08_Internal() {
	out := make(chan Event, 8)
	shutdown := make(chan struct{})
	s := vfNewSerf("self", 1)
	in, _ := newSerfQueries(s, nil, out, shutdown)
	var internal [3]bool
	for i := 0; i < 3; i++ {
		switch vfChoice("ekind", 4) {
		case 0:
			internal[i] = true
			in <- &Query{Name: InternalQueryPrefix + "ping", LTime: LamportTime(i), serf: s}
		case 1:
			internal[i] = true
			in <- &Query{Name: InternalQueryPrefix + "zz", LTime: LamportTime(i), serf: s}
		case 2:
			in <- &Query{Name: "user-query", LTime: LamportTime(i), serf: s}
		case 3:
			in <- UserEvent{Name: "ev", LTime: LamportTime(i)}
		}
	}
	for len(in) > 0 {
		vfYieldTo()
	}
	close(shutdown)
	vfWaitThreads()
	vfReach("C08.internal.done")
	next := 0
	for len(out) > 0 {
		e := <-out
		var lt LamportTime
		switch x := e.(type) {
		case *Query:
			vfAssert("C08.internal.never.forwarded", !strings.HasPrefix(x.Name, InternalQueryPrefix))
			lt = x.LTime
		case UserEvent:
			lt = x.LTime
		}
		// skip the internal ones, then the forwarded event must be the next external one
		for next < 3 && internal[next] {
			next++
		}
		vfAssert("C08.internal.order", next < 3 && int(lt) == next)
		next++
	}
	for next < 3 && internal[next] {
		next++
	}
	vfAssert("C08.internal.all.forwarded", next == 3)
}

// VfC08_ABA: "delivers each query at most once" across interleavings: query A,
// then an arbitrary other query B (same time / same slot / same id included),
// then A again: the second sighting of A delivers, acknowledges and
// re-broadcasts nothing.
//
//vf:unwind 16
//vf:paths quick=400000 thorough=4000000
//vf:bound state query buffer of length quick=2 thorough=4, each slot empty or a symbolic time with <=1 recorded id; times below 2^62
//vf:stub codec -> identity on tokens; transmit queues and transport recorded
//vf:nonative
func VfC08_ABA() {
	n := 2
	if vfTier() == 1 {
		n = 4 // a power of two like the default 512: time%3 (64-bit bvurem by 3) in every query is beyond the solvers here
	}
	s := vfNewSerf("self", n)
	vfArbQueryBuffer(s, n)
	d := &delegate{serf: s}
	a := vfC04Msg(3, false)
	d.NotifyMsg(a)
	if vfBool("withB") {
		d.NotifyMsg(vfC04Msg(3, false))
	}
	q0 := vfQueuedTotal(s)
	vfDrainEvents(s)
	p0 := vfPackets()
	d.NotifyMsg(a)
	vfReach("C08.aba.done")
	vfAssert("C08.aba.noredelivery", len(vfDrainEvents(s)) == 0)
	vfAssert("C08.aba.norebroadcast", vfQueuedTotal(s) == q0)
	vfAssert("C08.aba.noack", vfPackets() == p0)
}
