//go:build verif

package serf

import "bufio"

// C11: a crash at any point never loses snapshot state that was already written.
//
// From the file the real compaction writes for an arbitrary in-memory state
// (everything flushed, so disk == memory), ONE recording step runs - with a
// symbolic compaction threshold, so it may rewrite the file - and the process
// dies at a symbolic file-system operation (open, write, sync, close, remove,
// rename, stat: every one of them is a crash point). The directory survives as
// it is (bytes handed to write() are durable, bufio content is lost); the node
// restarts through the real NewSnapshotter/replay. Every restored component
// (rejoin set, each clock) must be the value from before the step or the value
// after it - in particular never "nothing" when a snapshot existed.

//vf:override os.OpenFile = github.com/hashicorp/serf/serf.vfOpenFile
//vf:override os.Remove = github.com/hashicorp/serf/serf.vfRemove
//vf:override os.Rename = github.com/hashicorp/serf/serf.vfRename
//vf:override (*os.File).Write = github.com/hashicorp/serf/serf.vfFileWrite
//vf:override (*os.File).WriteString = github.com/hashicorp/serf/serf.vfFileWriteString
//vf:override (*os.File).Read = github.com/hashicorp/serf/serf.vfFileRead
//vf:override (*os.File).Seek = github.com/hashicorp/serf/serf.vfFileSeek
//vf:override (*os.File).Sync = github.com/hashicorp/serf/serf.vfFileSync
//vf:override (*os.File).Close = github.com/hashicorp/serf/serf.vfFileClose
//vf:override (*os.File).Stat = github.com/hashicorp/serf/serf.vfFileStat
//vf:numtokens
//vf:stub file system -> in-memory model (process-crash semantics: written bytes durable, bufio content volatile); bufio executed for real
//vf:override os.Stat = github.com/hashicorp/serf/serf.vfStat
//vf:override os.IsNotExist = github.com/hashicorp/serf/serf.vfIsNotExist
//vf:unwind 40
//vf:paths quick=800000 thorough=8000000
//vf:bound state as VfC10_Step (0..2 alive nodes, 1-byte names other than newline, symbolic clocks and compaction threshold); step: join | failed | user event | query | clock tick; append-path write buffer of 4096 or of 16 bytes (the latter so that bufio's automatic flush splits the appended line); crash point: any of the first 24 file-system operations of the step
//vf:outside power loss (un-synced data) and writes torn by the OS; number fields are single tokens, so a split inside a number is not represented; crashes while the pre-state itself is being written
//vf:nonative
func VfC11_CrashStep() {
	vfFSReset()
	var clock LamportClock
	c := vfU64("clock")
	vfAssume(c >= 1)
	clock.counter.Store(c)
	s := vfSnapArbitrary(&clock, false)
	for name := range s.aliveNodes {
		vfAssume(name != "\n") // C10's known finding is not re-reported here
	}
	s.buffered.Flush() //nolint:errcheck
	// memory == disk now. bufio hands a line to the OS in two pieces when the line straddles the end of its
	// buffer; a crash between the two leaves a final line without its newline in the file. The 4 KiB buffer of
	// the append path is replaced by a 16-byte one to get that split with short lines (same bufio code).
	if vfBool("smallbuf") {
		s.buffered = bufio.NewWriterSize(s.fh, 16)
		s.buffered.WriteString("#\n") //nolint:errcheck // not empty (an empty bufio passes a long string straight through): 14 bytes of room
	}
	before := map[string]string{}
	for k, v := range s.aliveNodes {
		before[k] = v
	}
	c0, e0, q0 := s.lastClock, s.lastEventClock, s.lastQueryClock
	name := string(vfFixedBytes("evname", 1))
	vfAssume(name != "\n")
	step := vfChoice("step", 5)
	vfOps = 0
	vfCrashAt = 1 + vfChoice("crashAt", 24)
	crashed := vfRunUntilCrash(func() {
		switch step {
		case 0:
			s.processMemberEvent(MemberEvent{Type: EventMemberJoin, Members: []Member{{Name: name, Addr: vfAddrs[1], Port: 7946}}})
		case 1:
			s.processMemberEvent(MemberEvent{Type: EventMemberFailed, Members: []Member{{Name: name}}})
		case 2:
			s.processUserEvent(UserEvent{LTime: LamportTime(vfU64("elt")), Name: "e"})
		case 3:
			s.processQuery(&Query{LTime: LamportTime(vfU64("qlt")), Name: "q"})
		case 4:
			s.updateClock()
		}
		if s.buffered != nil {
			s.buffered.Flush() //nolint:errcheck
		}
	})
	if !crashed {
		return // the step finished before the chosen crash point
	}
	// what memory looked like when the process died: between "before" and the completed step
	after := s.aliveNodes
	c1, e1, q1 := s.lastClock, s.lastEventClock, s.lastQueryClock
	vfRestartProcess()
	var c2 LamportClock
	r := vfSnapOpen(1<<30, false, &c2)
	vfReach("C11.restarted")
	got := r.AliveNodes()
	vfAssert("C11.nodes.before.or.after", vfOr(vfSameNodes(got, before), vfSameNodes(got, after)))
	vfAssert("C11.clock.before.or.after", r.LastClock() == c0 || r.LastClock() == c1)
	vfAssert("C11.event.clock.before.or.after", r.LastEventClock() == e0 || r.LastEventClock() == e1)
	vfAssert("C11.query.clock.before.or.after", r.LastQueryClock() == q0 || r.LastQueryClock() == q1)
}
