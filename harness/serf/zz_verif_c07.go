//go:build verif

package serf

import "time"

// C07: query replies are routed to their query exactly once and never after close.

var vfC07Names = [3]string{"a", "b", "c"}

// vfC07Open builds an open query in an arbitrary state that satisfies the
// representation invariant "a responder is recorded iff its reply was put on
// the stream": every recorded responder has one entry in the channel.
func vfC07Open(s *Serf, lt LamportTime, id uint32, wantAck bool, pfx string) *QueryResponse {
	return vfC07OpenN(s, lt, id, wantAck, pfx, 2)
}

func vfC07OpenN(s *Serf, lt LamportTime, id uint32, wantAck bool, pfx string, prior int) *QueryResponse {
	flags := uint32(0)
	if wantAck {
		flags |= queryFlagAck
	}
	q := &messageQuery{LTime: lt, ID: id, Flags: flags, Timeout: time.Duration(vfU64(pfx+"timeout") & (1<<40 - 1))}
	r := newQueryResponse(3, q)
	for i := 0; i < prior; i++ {
		if vfBool(pfx + "hasResp") {
			r.responses[vfC07Names[i]] = struct{}{}
			r.respCh <- NodeResponse{From: vfC07Names[i]}
		}
		if wantAck && vfBool(pfx+"hasAck") {
			r.acks[vfC07Names[i]] = struct{}{}
			r.ackCh <- vfC07Names[i]
		}
	}
	s.queryResponse[lt] = r
	return r
}

func vfC07Reply() *messageQueryResponse {
	flags := uint32(0)
	if vfBool("replyIsAck") {
		flags |= queryFlagAck
	}
	return &messageQueryResponse{LTime: LamportTime(vfU64("rt")), ID: vfU32("rid"), From: vfC07Names[vfChoice("from", 3)], Flags: flags, Payload: vfFixedBytes("rp", 1)}
}

func vfLenAck(r *QueryResponse) int {
	if r.ackCh == nil {
		return 0
	}
	return len(r.ackCh)
}

// VfC07_Step: one arbitrary reply against an arbitrary open query.
//
//vf:unwind 16
//vf:bound state 1 open query (symbolic time/id, ack requested or not, closed or not, deadline passed or not), <=2 responders already delivered per stream; reply: symbolic time/id/kind, sender one of 3 names
//vf:nonative
func VfC07_Step() {
	s := vfNewSerf("self", 1)
	lt, id := LamportTime(vfU64("qt")), vfU32("qid")
	wantAck := vfBool("wantAck")
	r := vfC07Open(s, lt, id, wantAck, "q.")
	if vfBool("closed") {
		r.Close()
	}
	resp := vfC07Reply()
	_, hadResp := r.responses[resp.From]
	hadAck := false
	if wantAck {
		_, hadAck = r.acks[resp.From]
	}
	nr0, na0 := len(r.respCh), vfLenAck(r)
	wasClosed := r.closed
	lateBefore := time.Now().After(r.deadline) // the clock only moves forward: past the deadline before => past it during
	s.handleQueryResponse(resp)
	late := time.Now().After(r.deadline) // not late after => not late during
	nr1, na1 := len(r.respCh), vfLenAck(r)
	vfReach("C07.step.done")
	vfAssert("C07.step.atmostone", nr1-nr0+na1-na0 <= 1 && nr1 >= nr0 && na1 >= na0)
	matches := resp.LTime == lt && resp.ID == id
	if !matches {
		vfAssert("C07.step.foreign.nothing", nr1 == nr0 && na1 == na0)
	}
	if wasClosed {
		vfAssert("C07.step.closed.nothing", nr1 == nr0 && na1 == na0)
	}
	if lateBefore {
		// the query has finished (deadline passed) even if its timer has not closed it yet
		vfAssert("C07.step.pastdeadline.nothing", nr1 == nr0 && na1 == na0)
	}
	if resp.Ack() {
		vfAssert("C07.step.ack.kind", nr1 == nr0)
		if hadAck || !wantAck {
			vfAssert("C07.step.ack.dup.nothing", na1 == na0)
		}
		if na1 == na0+1 {
			_, rec := r.acks[resp.From]
			vfAssert("C07.step.ack.recorded", rec && matches && !wasClosed && !hadAck)
		}
		if matches && !wasClosed && !hadAck && wantAck && !late {
			vfAssert("C07.step.ack.delivered", na1 == na0+1)
		}
	} else {
		vfAssert("C07.step.resp.kind", na1 == na0)
		if hadResp {
			vfAssert("C07.step.resp.dup.nothing", nr1 == nr0)
		}
		if nr1 == nr0+1 {
			_, rec := r.responses[resp.From]
			vfAssert("C07.step.resp.recorded", rec && matches && !wasClosed && !hadResp)
		}
		if matches && !wasClosed && !hadResp && !late {
			vfAssert("C07.step.resp.delivered", nr1 == nr0+1)
		}
	}
}

// VfC07_TwoQueries: two open queries; one reply changes at most the streams of
// the query whose time and id it carries.
//
//vf:unwind 16
//vf:bound state 2 open queries with symbolic distinct times, symbolic ids
func VfC07_TwoQueries() {
	s := vfNewSerf("self", 1)
	t1, t2 := LamportTime(vfU64("qt1")), LamportTime(vfU64("qt2"))
	vfAssume(t1 != t2)
	id1, id2 := vfU32("qid1"), vfU32("qid2")
	r1 := vfC07OpenN(s, t1, id1, vfBool("wantAck1"), "q1.", 0)
	r2 := vfC07OpenN(s, t2, id2, vfBool("wantAck2"), "q2.", 0)
	resp := vfC07Reply()
	a1, b1, a2, b2 := len(r1.respCh), vfLenAck(r1), len(r2.respCh), vfLenAck(r2)
	s.handleQueryResponse(resp)
	vfReach("C07.two.done")
	ch1 := len(r1.respCh) != a1 || vfLenAck(r1) != b1
	ch2 := len(r2.respCh) != a2 || vfLenAck(r2) != b2
	vfAssert("C07.two.own.only.1", vfImplies(ch1, resp.LTime == t1 && resp.ID == id1))
	vfAssert("C07.two.own.only.2", vfImplies(ch2, resp.LTime == t2 && resp.ID == id2))
	vfAssert("C07.two.notboth", !(ch1 && ch2))
}

// VfC07_Timeout: reply delivery racing with the query's timeout: the real
// registerQueryResponse timer closure runs as a thread that may fire at any
// scheduling point. No send on a closed channel, no double close (both would be
// panic paths); afterwards the streams are closed, the query is deregistered
// and a late reply is dropped.
//
//vf:sched
//vf:switches quick=2 thorough=3
//vf:paths quick=600000 thorough=6000000
//vf:unwind 16
//vf:bound threads reply handler (2 replies, symbolic senders/kinds) || timeout closure || explicit Close by the application; <=2 (3) pre-emptions
//vf:nonative
func VfC07_Timeout() {
	s := vfNewSerf("self", 1)
	lt, id := LamportTime(vfU64("qt")), vfU32("qid")
	flags := uint32(0)
	if vfBool("wantAck") {
		flags |= queryFlagAck
	}
	r := newQueryResponse(3, &messageQuery{LTime: lt, ID: id, Flags: flags, Timeout: time.Hour})
	s.registerQueryResponse(time.Hour, r)
	if vfBool("appCloses") {
		vfGo(func() { r.Close() })
	}
	for i := 0; i < 2; i++ {
		fl := uint32(0)
		if vfBool("replyIsAck") {
			fl |= queryFlagAck
		}
		s.handleQueryResponse(&messageQueryResponse{LTime: lt, ID: id, From: vfC07Names[vfChoice("from", 2)], Flags: fl})
	}
	vfWaitThreads()
	vfReach("C07.timeout.done")
	vfAssert("C07.timeout.closed", r.closed)
	_, still := s.queryResponse[lt]
	vfAssert("C07.timeout.deregistered", !still)
	vfAssert("C07.timeout.atmostone.each", len(r.respCh) <= 2 && vfLenAck(r) <= 2)
	n0, a0 := len(r.respCh), vfLenAck(r)
	s.queryResponse[lt] = r // even if a stale entry were still routed to it
	s.handleQueryResponse(&messageQueryResponse{LTime: lt, ID: id, From: "c"})
	vfAssert("C07.timeout.nothing.after.close", len(r.respCh) == n0 && vfLenAck(r) == a0)
}

// VfC07_TwoRegistered: two queries registered by the same node, possibly with
// the same Lamport time (concurrent Query calls can read the same clock value,
// see C06): when both timeouts have fired, the streams of BOTH queries are
// closed (exactly once: a double close is a panic path) and nothing stays
// registered.
//
//vf:sched
//vf:switches quick=2 thorough=3
//vf:paths quick=600000 thorough=6000000
//vf:unwind 16
//vf:bound threads 2 registrations with symbolic (possibly equal) times, 2 timeout closures firing in any order, 1 reply in between
//vf:nonative
func VfC07_TwoRegistered() {
	s := vfNewSerf("self", 1)
	t1, t2 := LamportTime(vfU64("qt1")), LamportTime(vfU64("qt2"))
	r1 := newQueryResponse(3, &messageQuery{LTime: t1, ID: 1, Flags: queryFlagAck, Timeout: time.Hour})
	r2 := newQueryResponse(3, &messageQuery{LTime: t2, ID: 2, Timeout: time.Hour})
	s.registerQueryResponse(time.Hour, r1)
	s.registerQueryResponse(time.Hour, r2)
	s.handleQueryResponse(&messageQueryResponse{LTime: t2, ID: 2, From: "a"})
	vfWaitThreads()
	vfReach("C07.tworeg.done")
	vfAssert("C07.tworeg.closed.first", r1.closed)
	vfAssert("C07.tworeg.closed.second", r2.closed)
	vfAssert("C07.tworeg.deregistered", len(s.queryResponse) == 0)
}
