//go:build verif

package serf

import (
	"fmt"
	"time"
)

// C23: cluster key operations aggregate replies faithfully and replies fit.

type vfC23Reply struct {
	kind    int // 0 empty payload, 1 wrong type byte, 2 undecodable, 3 failed, 4 ok
	hasK0   bool
	hasK1   bool
	primary string
}

var vfC23From = [4]string{"n0", "n1", "n2", "n3"}

// vfC23Replies puts n symbolic replies on a closed channel.
func vfC23Replies(n int) (chan NodeResponse, []vfC23Reply) {
	ch := make(chan NodeResponse, n+1)
	var rs []vfC23Reply
	for i := 0; i < n; i++ {
		r := vfC23Reply{kind: vfChoice("rkind", 5)}
		var payload []byte
		switch r.kind {
		case 0:
			payload = nil
		case 1:
			payload, _ = encodeMessage(messageConflictResponseType, &nodeKeyResponse{Result: true}, false)
		case 2:
			payload, _ = encodeMessage(messageKeyResponseType, &messageJoin{Node: "x"}, false)
		case 3:
			payload, _ = encodeMessage(messageKeyResponseType, &nodeKeyResponse{Result: false, Message: vfString("msg", 1)}, false)
		case 4:
			nk := &nodeKeyResponse{Result: true}
			r.hasK0, r.hasK1 = vfBool("hasK0"), vfBool("hasK1")
			if r.hasK0 {
				nk.Keys = append(nk.Keys, "k0")
			}
			if r.hasK1 {
				nk.Keys = append(nk.Keys, "k1")
			}
			if vfBool("primaryIsK0") {
				r.primary = "k0"
			} else {
				r.primary = "k1"
			}
			nk.PrimaryKey = r.primary
			if vfBool("warn") {
				nk.Message = "w"
			}
			payload, _ = encodeMessage(messageKeyResponseType, nk, false)
		}
		ch <- NodeResponse{From: vfC23From[i], Payload: payload}
		rs = append(rs, r)
	}
	close(ch)
	return ch, rs
}

func vfC23Expect(rs []vfC23Reply, numNodes int) (consumed, nerr, k0, k1, p0, p1 int) {
	for _, r := range rs {
		if consumed == numNodes && numNodes > 0 {
			break
		}
		consumed++
		if r.kind != 4 {
			nerr++
			continue
		}
		k0 += vfB2I(r.hasK0)
		k1 += vfB2I(r.hasK1)
		if r.primary == "k0" {
			p0++
		} else {
			p1++
		}
	}
	return
}

// VfC23_Aggregate: every multiset of <=3 replies of the five kinds.
//
//vf:unwind 16
//vf:bound inputs <=3 replies (empty | wrong type byte | undecodable | failed with/without message | ok listing a subset of 2 keys and a primary); member count 1..4 (thorough 1..5)
//vf:stub codec -> identity on tokens
func VfC23_Aggregate() {
	s := vfNewSerf("self", 1)
	k := &KeyManager{serf: s}
	n := vfChoice("nreplies", 4)
	ch, rs := vfC23Replies(n)
	numNodes := 1 + vfChoice("numNodes", 4+vfTier())
	resp := &KeyResponse{Messages: map[string]string{}, Keys: map[string]int{}, PrimaryKeys: map[string]int{}, NumNodes: numNodes}
	k.streamKeyResp(resp, ch)
	consumed, nerr, k0, k1, p0, p1 := vfC23Expect(rs, numNodes)
	vfReach("C23.agg.done")
	vfAssert("C23.agg.numresp", resp.NumResp == consumed)
	vfAssert("C23.agg.numerr", resp.NumErr == nerr)
	vfAssert("C23.agg.keys", resp.Keys["k0"] == k0 && resp.Keys["k1"] == k1)
	vfAssert("C23.agg.primary", resp.PrimaryKeys["k0"] == p0 && resp.PrimaryKeys["k1"] == p1)
	vfAssert("C23.agg.nodes.kept", resp.NumNodes == numNodes)
}

var vfC23Chan chan NodeResponse

func vfStubQueryC23(s *Serf, name string, payload []byte, params *QueryParam) (*QueryResponse, error) {
	return &QueryResponse{respCh: vfC23Chan}, nil
}

// VfC23_ErrorCond: the cluster operation returns an error exactly when some
// node failed (or was undecodable) or fewer nodes replied than are members.
//
//vf:unwind 16
//vf:override (*github.com/hashicorp/serf/serf.Serf).Query = github.com/hashicorp/serf/serf.vfStubQueryC23
//vf:bound inputs <=3 replies of the five kinds; member count 1..4
//vf:stub Serf.Query -> hands back a pre-filled reply stream (Query itself is checked under C06/C33); codec -> identity on tokens
//vf:nonative
func VfC23_ErrorCond() {
	s := vfNewSerf("self", 1)
	k := &KeyManager{serf: s}
	n := vfChoice("nreplies", 4)
	ch, rs := vfC23Replies(n)
	vfC23Chan = ch
	numNodes := 1 + vfChoice("numNodes", 4)
	vfSetNumMembers(numNodes)
	resp, err := k.handleKeyRequest("", listKeysQuery, nil)
	consumed, nerr, _, _, _, _ := vfC23Expect(rs, numNodes)
	vfReach("C23.err.done")
	vfAssert("C23.err.iff", (err != nil) == (nerr > 0 || consumed < numNodes))
	vfAssert("C23.err.counts", resp != nil && resp.NumResp == consumed && resp.NumErr == nerr && resp.NumNodes == numNodes)
}

// VfC23_Truncate: a node's key-listing reply for 0..4 keys under every response
// size limit, with the encoded size of every attempt arbitrary.
//
//vf:unwind 16
//vf:concretize 8
//vf:bound inputs 0..4 keys; response size limit symbolic in [0, 2^20]; encoded size of each attempt arbitrary (not assumed monotone in the number of keys)
//vf:stub encodeMessage -> opaque buffer of arbitrary symbolic length that remembers the encoded value
//vf:outside real encoded sizes: "when one key fits" is covered as "whenever some attempt fits"
//vf:nonative
func VfC23_Truncate() {
	vfOpaqueEncoding()
	s := vfNewSerf("self", 1)
	limit := vfInt("limit")
	vfAssume(limit >= 0)
	vfAssume(limit <= 1<<20)
	s.config.QueryResponseSizeLimit = limit
	all := []string{"k0", "k1", "k2", "k3"}
	n := vfChoice("nkeys", 5)
	keys := append([]string{}, all[:n]...)
	resp := &nodeKeyResponse{Result: true, Keys: keys, PrimaryKey: "k0"}
	q := &Query{serf: s, id: 7, LTime: 5, Name: internalQueryName(listKeysQuery), deadline: time.Now().Add(time.Hour)}
	sq := &serfQueries{serf: s}
	raw, qresp, err := sq.keyListResponseWithCorrectSize(q, resp)
	vfReach("C23.trunc.done")
	if err != nil {
		vfAssert("C23.trunc.err.nothing", raw == nil)
		return
	}
	vfAssert("C23.trunc.fits", len(raw) <= limit)
	var qr messageQueryResponse
	vfAssert("C23.trunc.decodes", vfDecodeOpaque(raw, &qr))
	vfAssert("C23.trunc.header", qr.LTime == 5 && qr.ID == 7 && qr.From == "self" && qresp.ID == 7 && qresp.From == "self")
	var nk nodeKeyResponse
	vfAssert("C23.trunc.payload.decodes", vfDecodeOpaque(qr.Payload, &nk))
	shown := len(nk.Keys)
	vfAssert("C23.trunc.prefix.len", shown <= n)
	for i := 0; i < shown && i < n; i++ {
		vfAssert("C23.trunc.prefix", nk.Keys[i] == all[i])
	}
	if shown < n {
		vfAssert("C23.trunc.message", nk.Message == fmt.Sprintf("truncated key list response, showing first %d of %d keys", shown, n))
	} else if nk.Message != "" {
		// not truncated: the property does not constrain the message; with arbitrary
		// sizes a first failed attempt may leave the (accurate) "n of n" note behind
		vfAssert("C23.trunc.message.accurate", nk.Message == fmt.Sprintf("truncated key list response, showing first %d of %d keys", n, n))
	}
	vfAssert("C23.trunc.result.kept", nk.Result && nk.PrimaryKey == "k0")
}
