//go:build verif

package serf

import (
	"net"
	"time"

	"github.com/hashicorp/memberlist"
)

// C33: nothing larger than the configured limits is ever sent. The encoded
// length of every message is an arbitrary symbolic value (the codec is not
// encoded; any length it could produce is covered).

// VfC33_UserEvent: all name/payload lengths up to 3+3 bytes, all configured
// limits, all encoded lengths.
//
//vf:unwind 12
//vf:bound sizes name and payload 0..3 bytes each; configured limit and encoded length fully symbolic
//vf:stub encodeMessage -> opaque buffer of arbitrary symbolic length in [1,2^24]
//vf:nonative
func VfC33_UserEvent() {
	vfOpaqueEncoding()
	s := vfNewSerf("self", 4)
	limit := vfInt("limit")
	s.config.UserEventSizeLimit = limit
	s.eventClock.Witness(LamportTime(vfU64("clock") >> 2))
	before := s.eventClock.Time()
	name := vfString("name", 3)
	payload := vfBytes("payload", 3)
	err := s.UserEvent(name, payload, vfBool("coalesce"))
	evs := vfDrainEvents(s)
	enc := vfLastEncLen()
	raw := len(name) + len(payload)
	queued := s.eventBroadcasts.NumQueued()
	vfReach("C33.ue.done")
	if err == nil {
		vfAssert("C33.ue.accepted.raw", raw <= limit && raw <= UserEventSizeLimit)
		vfAssert("C33.ue.accepted.enc", vfAnd(enc <= limit, enc <= UserEventSizeLimit))
		vfAssert("C33.ue.accepted.effects", queued == 1 && len(evs) == 1)
		vfAssert("C33.ue.accepted.queuedlen", vfQueuedLen(s.eventBroadcasts, 0) == enc)
	} else {
		vfAssert("C33.ue.rejected.silent", queued == 0 && len(evs) == 0)
		vfAssert("C33.ue.rejected.clock", s.eventClock.Time() >= before) // a rejected call may consume a Lamport time (the property only forbids delivery and broadcast)
		vfAssert("C33.ue.rejected.only.when.over", vfOr(vfOr(raw > limit, raw > UserEventSizeLimit), vfOr(enc > limit, enc > UserEventSizeLimit)))
	}
}

// VfC33_Query: a query is registered, delivered locally and queued only if its encoded form fits the query size limit.
//
//vf:unwind 12
//vf:bound sizes configured limit and encoded length fully symbolic
//vf:stub encodeMessage -> opaque buffer of arbitrary symbolic length; LocalNode/NumMembers -> harness values; time.AfterFunc recorded
//vf:nonative
func VfC33_Query() {
	vfOpaqueEncoding()
	s := vfNewSerf("self", 4)
	vfSetLocalNode(&memberlist.Node{Name: "self", Addr: net.IP{10, 0, 0, 1}, Port: 7946})
	limit := vfInt("limit")
	s.config.QuerySizeLimit = limit
	resp, err := s.Query("q", vfBytes("payload", 2), &QueryParam{Timeout: time.Second, RequestAck: vfBool("ack")})
	enc := vfEncLen(0) // the query itself is the first message encoded (an ack to ourselves may follow)
	queued := s.queryBroadcasts.NumQueued()
	evs := vfDrainEvents(s)
	vfReach("C33.q.done")
	if err == nil {
		vfAssert("C33.q.accepted.enc", enc <= limit)
		vfAssert("C33.q.accepted.effects", queued == 1 && resp != nil && len(s.queryResponse) == 1 && len(evs) == 1)
	} else {
		vfAssert("C33.q.rejected.silent", queued == 0 && resp == nil && len(s.queryResponse) == 0 && len(evs) == 0)
		vfAssert("C33.q.rejected.only.when.over", enc > limit)
	}
}

// VfC33_Respond: a query response (direct copy and relayed copies) is handed to
// the transport only if its encoded form fits the response size limit.
//
//vf:unwind 40
//vf:concretize 8
//vf:bound sizes response limit and encoded lengths fully symbolic; 3 members; relay factor 0..2
//vf:stub encodeMessage/encodeRelayMessage -> opaque buffers of arbitrary symbolic length; SendToAddress recorded
//vf:nonative
func VfC33_Respond() {
	vfOpaqueEncoding()
	s := vfNewSerf("m0", 4)
	for i := 0; i < 3; i++ {
		s.members[vfNames[i]] = &memberState{Member: Member{Name: vfNames[i], Addr: net.IP{10, 0, 0, 1}, Port: 7946, Status: StatusAlive, ProtocolMax: 5}}
	}
	limit := vfInt("limit")
	s.config.QueryResponseSizeLimit = limit
	rf := vfU8("relay")
	vfAssume(rf <= 2)
	q := &Query{LTime: 5, Name: "q", serf: s, id: 7, addr: []byte{10, 0, 0, 9}, port: 1, sourceNode: "origin",
		deadline: vfTime("deadline"), relayFactor: rf}
	err := q.Respond(vfBytes("buf", 2))
	np := vfPackets()
	vfReach("C33.r.done")
	for i := 0; i < np; i++ {
		vfAssert("C33.r.packet.fits", vfPacketLen(i) <= limit)
	}
	vfAssert("C33.r.ok.sent", vfImplies(err == nil, np >= 1))
}
