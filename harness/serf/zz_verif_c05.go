//go:build verif

package serf

// C05: each user event reaches the application at most once per node, and an
// event first received inside the window and not older than the cut-off is
// delivered. "At most once" across arbitrary interleavings is the ABA scenario
// (VfC04_EventABA asserts C05.aba.noredelivery); here: the delivery rule.

// VfC05_FirstDelivered: from an arbitrary event-buffer state, one user event
// with fully symbolic time/name/payload is delivered exactly once iff it is not
// before the cut-off, not older than the window, and not already recorded;
// the delivered event carries the same time, name, payload and coalesce flag.
//
//vf:unwind 16
//vf:bound state event buffer of length quick=1..2 thorough=1,2,4, slots empty or symbolic time with <=1 record; all times symbolic (below 2^62)
func VfC05_FirstDelivered() {
	n := 1 + vfChoice("buflen", 2)
	if vfTier() == 1 {
		n = [...]int{1, 2, 4}[vfChoice("buflen", 3)] // powers of two like the default 512 (time%3 is beyond the solvers here)
	}
	s := vfNewSerf("self", n)
	vfArbEventBuffer(s, n)
	t := vfU64("mt")
	vfAssume(t < 1<<62)
	name := string(vfFixedBytes("name", 1))
	pl := vfFixedBytes("pl", 1)
	cc := vfBool("cc")
	// expectation, computed from the pre-state
	clock := uint64(s.eventClock.Time())
	after := vfIteU64(t >= clock, t+1, clock) // clock after witnessing
	beforeMin := t < uint64(s.eventMinTime)
	tooOld := vfAnd(after > uint64(n), t < after-uint64(n))
	recorded := false
	for _, slot := range s.eventBuffer {
		if slot != nil {
			for _, e := range slot.Events {
				recorded = vfOr(recorded, vfAnd(uint64(slot.LTime) == t, vfAnd(e.Name == name, e.Payload[0] == pl[0])))
			}
		}
	}
	want := vfAnd(vfAnd(!beforeMin, !tooOld), !recorded)
	rb := s.handleUserEvent(&messageUserEvent{LTime: LamportTime(t), Name: name, Payload: pl, CC: cc})
	evs := vfDrainEvents(s)
	vfReach("C05.first.done")
	vfAssert("C05.first.atmostone", len(evs) <= 1)
	vfAssert("C05.first.delivered.iff", (len(evs) == 1) == want)
	vfAssert("C05.first.rebroadcast.iff", rb == want)
	if len(evs) == 1 {
		ue, ok := evs[0].(UserEvent)
		vfAssert("C05.first.same", ok && uint64(ue.LTime) == t && ue.Name == name && len(ue.Payload) == 1 && ue.Payload[0] == pl[0] && ue.Coalesce == cc)
	}
	// and a second delivery of the same event is never delivered again
	s.handleUserEvent(&messageUserEvent{LTime: LamportTime(t), Name: name, Payload: pl, CC: cc})
	vfAssert("C05.first.notagain", len(vfDrainEvents(s)) == 0)
}

// VfC05_PushPull: events carried by a state-sync payload follow the same rule,
// and a join with the ignore-old option raises the cut-off so that none of the
// peer's older events is delivered.
//
//vf:unwind 16
//vf:bound state event buffer of length 2; payload with <=1 event; times symbolic below 2^62
func VfC05_PushPull() {
	s := vfNewSerf("self", 2)
	vfArbEventBuffer(s, 2)
	ignore := vfBool("joinIgnore")
	isJoin := vfBool("isJoin")
	s.eventJoinIgnore.Store(ignore)
	d := &delegate{serf: s}
	buf, pp := vfArbPushPull(nil)
	min0 := s.eventMinTime
	d.MergeRemoteState(buf, isJoin)
	evs := vfDrainEvents(s)
	vfReach("C05.pp.done")
	vfAssert("C05.pp.atmostone", len(evs) <= 1)
	if len(evs) == 1 {
		ue := evs[0].(UserEvent)
		vfAssert("C05.pp.from.payload", len(pp.Events) == 2 && ue.LTime == pp.Events[1].LTime && ue.Name == pp.Events[1].Events[0].Name)
		vfAssert("C05.pp.not.before.cutoff", ue.LTime >= min0)
		vfAssert("C05.pp.joinignore", vfImplies(vfAnd(ignore, isJoin), ue.LTime >= pp.EventLTime))
	}
	vfAssert("C05.pp.cutoff.monotone", s.eventMinTime >= min0)
	// delivering the same payload again delivers nothing
	d.MergeRemoteState(buf, isJoin)
	vfAssert("C05.pp.notagain", len(vfDrainEvents(s)) == 0)
}

// VfC05_EventABA: deliver A, an arbitrary other user event B (same-slot
// collisions included), then A again: A is not delivered a second time.
//
//vf:unwind 16
//vf:bound state event buffer of length quick=2 thorough=4, each slot empty or a symbolic time with <=1 recorded event; names/payloads 1 symbolic byte; times below 2^62
func VfC05_EventABA() { vfEventABA() }

// VfC05_Concurrent: the same event arrives at once by gossip (NotifyMsg) and in
// a state-sync payload (MergeRemoteState), which memberlist runs on different
// goroutines: under every interleaving of the two handlers the application
// sees it at most once, and exactly once when it is inside the window, not
// before the cut-off and not yet recorded.
//
//vf:sched
//vf:switches quick=2 thorough=4
//vf:paths quick=600000 thorough=6000000
//vf:unwind 16
//vf:bound threads 2 concurrent deliveries of one event (symbolic time below 2^62, 1-byte symbolic name and payload); event buffer of length 2 with symbolic slots (<=1 record each)
//vf:stub codec -> identity on tokens
//vf:nonative
func VfC05_Concurrent() {
	n := 2
	s := vfNewSerf("self", n)
	vfArbEventBuffer(s, n)
	t := vfU64("mt")
	vfAssume(t < 1<<62)
	name := string(vfFixedBytes("name", 1))
	pl := vfFixedBytes("pl", 1)
	clock := uint64(s.eventClock.Time())
	after := vfIteU64(t >= clock, t+1, clock)
	beforeMin := t < uint64(s.eventMinTime)
	tooOld := vfAnd(after > uint64(n), t < after-uint64(n))
	recorded := false
	for _, slot := range s.eventBuffer {
		if slot != nil {
			for _, e := range slot.Events {
				recorded = vfOr(recorded, vfAnd(uint64(slot.LTime) == t, vfAnd(e.Name == name, e.Payload[0] == pl[0])))
			}
		}
	}
	want := vfAnd(vfAnd(!beforeMin, !tooOld), !recorded)
	d := &delegate{serf: s}
	msg, _ := encodeMessage(messageUserEventType, &messageUserEvent{LTime: LamportTime(t), Name: name, Payload: pl}, false)
	pp := messagePushPull{Events: []*userEvents{{LTime: LamportTime(t), Events: []userEvent{{Name: name, Payload: pl}}}}}
	ppb, _ := encodeMessage(messagePushPullType, &pp, false)
	vfGo(func() { d.MergeRemoteState(ppb, false) })
	d.NotifyMsg(msg)
	vfWaitThreads()
	evs := vfDrainEvents(s)
	vfReach("C05.concurrent.done")
	vfAssert("C05.concurrent.atmostonce", len(evs) <= 1)
	vfAssert("C05.concurrent.delivered.iff", (len(evs) == 1) == want)
}
