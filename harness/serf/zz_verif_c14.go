//go:build verif

package serf

import (
	"log"
	"time"

	"github.com/hashicorp/memberlist"
)

// C14: a restarted node never re-delivers old user events or queries.
//
// The real Create() is executed with the snapshot reader replaced by an object
// carrying arbitrary recorded clocks (the reader itself is C10's subject) and
// memberlist.Create replaced by a stub; then messages with Lamport times at or
// below the recorded ones are injected through gossip, state sync and the
// join-replay path, and nothing may reach the application channel.

var vfC14Snap *Snapshotter

func vfStubNewSnapshotter(path string, minCompactSize int, rejoinAfterLeave bool, logger *log.Logger,
	clock *LamportClock, outCh chan<- Event, shutdownCh <-chan struct{}) (chan<- Event, *Snapshotter, error) {
	snap := &Snapshotter{
		aliveNodes:     map[string]string{},
		lastClock:      LamportTime(vfU64("oldClock")),
		lastEventClock: LamportTime(vfU64("oldEventClock")),
		lastQueryClock: LamportTime(vfU64("oldQueryClock")),
	}
	vfC14Snap = snap
	return outCh, snap, nil
}

func vfStubMlCreate(conf *memberlist.Config) (*memberlist.Memberlist, error) { return nil, nil }

func vfStubEncodeTags(s *Serf, tags map[string]string) []byte { return []byte{255} }

// vfC14Create runs the real Create and returns the node and the channel its
// handlers deliver to.
func vfC14Create(n int) (*Serf, chan Event) {
	app := make(chan Event, 64)
	conf := &Config{
		NodeName:               "self",
		ProtocolVersion:        5,
		EventBuffer:            n,
		QueryBuffer:            n,
		EventCh:                app,
		DisableCoordinates:     true,
		QueryTimeoutMult:       16,
		QueryResponseSizeLimit: 1024,
		QuerySizeLimit:         1024,
		UserEventSizeLimit:     512,
		SnapshotPath:           "snap",
		MemberlistConfig:       &memberlist.Config{Name: "self", GossipInterval: 200 * time.Millisecond},
	}
	s, err := Create(conf)
	vfAssert("C14.create.ok", err == nil && s != nil)
	return s, nil
}

// vfC14Delivered counts what the handlers handed to the event pipeline
// (the channel Create installed in the configuration).
func vfC14Delivered(s *Serf) int {
	n := 0
	ch := vfC14In(s)
	for len(ch) > 0 {
		<-ch
		n++
	}
	return n
}

func vfC14In(s *Serf) chan Event { return vfC14InCh }

var vfC14InCh chan Event

// vfStubNewSerfQueries keeps the pipeline head observable: same channel shape
// as the real one (buffered, 1024) without starting the consumer goroutine.
func vfStubNewSerfQueries(serf *Serf, logger *log.Logger, outCh chan<- Event, shutdownCh <-chan struct{}) (chan<- Event, error) {
	vfC14InCh = make(chan Event, 1024)
	return vfC14InCh, nil
}

// VfC14_Restore: the restore block of Create establishes cut-offs above every
// recorded clock, and the clocks themselves are restored past the recorded values.
//
//vf:unwind 8
//vf:override github.com/hashicorp/serf/serf.NewSnapshotter = github.com/hashicorp/serf/serf.vfStubNewSnapshotter
//vf:override github.com/hashicorp/memberlist.Create = github.com/hashicorp/serf/serf.vfStubMlCreate
//vf:override (*github.com/hashicorp/serf/serf.Serf).encodeTags = github.com/hashicorp/serf/serf.vfStubEncodeTags
//vf:override github.com/hashicorp/serf/serf.newSerfQueries = github.com/hashicorp/serf/serf.vfStubNewSerfQueries
//vf:bound values all 64-bit recorded clocks
//vf:nonative
func VfC14_Restore() {
	s, _ := vfC14Create(2)
	snap := vfC14Snap
	vfReach("C14.restore.done")
	vfAssert("C14.restore.event.cutoff", s.eventMinTime > snap.lastEventClock)
	vfAssert("C14.restore.query.cutoff", s.queryMinTime > snap.lastQueryClock)
	vfAssert("C14.restore.clock", s.clock.Time() >= snap.lastClock)
	vfAssert("C14.restore.eventclock", s.eventClock.Time() >= snap.lastEventClock)
	vfAssert("C14.restore.queryclock", s.queryClock.Time() >= snap.lastQueryClock)
}

// VfC14_Deliver: into the freshly restored node inject one user event / query /
// state-sync payload (as periodic sync or as join replay, with and without the
// ignore-old option) whose Lamport time is at or below the recorded one:
// nothing is delivered. A message above the recorded time is delivered (so the
// check is not vacuous).
//
//vf:unwind 8
//vf:override github.com/hashicorp/serf/serf.NewSnapshotter = github.com/hashicorp/serf/serf.vfStubNewSnapshotter
//vf:override github.com/hashicorp/memberlist.Create = github.com/hashicorp/serf/serf.vfStubMlCreate
//vf:override (*github.com/hashicorp/serf/serf.Serf).encodeTags = github.com/hashicorp/serf/serf.vfStubEncodeTags
//vf:override github.com/hashicorp/serf/serf.newSerfQueries = github.com/hashicorp/serf/serf.vfStubNewSerfQueries
//vf:bound values all 64-bit recorded clocks and message times; buffers of length 2; state-sync payload with <=1 event
//vf:nonative
func VfC14_Deliver() {
	s, _ := vfC14Create(2)
	snap := vfC14Snap
	d := &delegate{serf: s}
	t := LamportTime(vfU64("mt"))
	kind := vfChoice("kind", 4)
	old := false
	switch kind {
	case 0: // gossiped user event
		old = t <= snap.lastEventClock
		msg, _ := encodeMessage(messageUserEventType, &messageUserEvent{LTime: t, Name: "e", Payload: []byte{1}}, false)
		d.NotifyMsg(msg)
	case 1: // gossiped query
		old = t <= snap.lastQueryClock
		msg, _ := encodeMessage(messageQueryType, &messageQuery{LTime: t, ID: vfU32("id"), Addr: []byte{10, 0, 0, 9}, Port: 1,
			SourceNode: "origin", Timeout: time.Second, Name: "q"}, false)
		d.NotifyMsg(msg)
	case 2, 3: // state sync (periodic or join replay)
		old = t <= snap.lastEventClock
		s.eventJoinIgnore.Store(vfBool("ignoreOld"))
		pp := &messagePushPull{
			LTime:        LamportTime(vfU64("ppclock")),
			StatusLTimes: map[string]LamportTime{},
			EventLTime:   LamportTime(vfU64("ppeclock")),
			QueryLTime:   LamportTime(vfU64("ppqclock")),
			Events:       []*userEvents{nil, {LTime: t, Events: []userEvent{{Name: "e", Payload: []byte{1}}}}},
		}
		buf, _ := encodeMessage(messagePushPullType, pp, false)
		d.MergeRemoteState(buf, kind == 3)
	}
	n := vfC14Delivered(s)
	vfReach("C14.deliver.done")
	if old {
		vfAssert("C14.deliver.old.nothing", n == 0)
	}
	vfAssert("C14.deliver.atmostone", n <= 1)
	// cut-offs never move down afterwards
	vfAssert("C14.deliver.cutoff.kept", s.eventMinTime > snap.lastEventClock && s.queryMinTime > snap.lastQueryClock)
}

// VfC14_DeliverNew is the vacuity guard of VfC14_Deliver: a user event newer
// than every recorded clock, inside the window, is delivered.
//
//vf:unwind 8
//vf:override github.com/hashicorp/serf/serf.NewSnapshotter = github.com/hashicorp/serf/serf.vfStubNewSnapshotter
//vf:override github.com/hashicorp/memberlist.Create = github.com/hashicorp/serf/serf.vfStubMlCreate
//vf:override (*github.com/hashicorp/serf/serf.Serf).encodeTags = github.com/hashicorp/serf/serf.vfStubEncodeTags
//vf:override github.com/hashicorp/serf/serf.newSerfQueries = github.com/hashicorp/serf/serf.vfStubNewSerfQueries
//vf:nonative
func VfC14_DeliverNew() {
	s, _ := vfC14Create(2)
	snap := vfC14Snap
	vfAssume(snap.lastEventClock < 1<<62)
	t := snap.lastEventClock + 1
	d := &delegate{serf: s}
	msg, _ := encodeMessage(messageUserEventType, &messageUserEvent{LTime: t, Name: "e", Payload: []byte{1}}, false)
	d.NotifyMsg(msg)
	vfReach("C14.new.done")
	vfAssert("C14.new.delivered", vfC14Delivered(s) == 1)
}
