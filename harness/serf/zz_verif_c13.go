//go:build verif

package serf

import (
	"fmt"
	"net"
	"strings"
)

// C13: a graceful leave is remembered across restarts.
//
// The real stream() loop runs as a thread (with teeStream, started by the real
// NewSnapshotter) on the in-memory file system. The snapshot file initially
// holds an arbitrary recorded state (0..2 alive nodes, symbolic clocks). The
// harness feeds an event, signals the leave through the real Leave(), feeds
// another event, shuts down and waits; the clock ticker fires at arbitrary
// scheduling decisions; the compaction threshold makes every append compact
// or none. After a restart through the real NewSnapshotter the rejoin set must
// be empty (rejoin-after-leave off) or the set the snapshotter knew when it
// processed the leave (on).

//vf:override os.OpenFile = github.com/hashicorp/serf/serf.vfOpenFile
//vf:override os.Remove = github.com/hashicorp/serf/serf.vfRemove
//vf:override os.Rename = github.com/hashicorp/serf/serf.vfRename
//vf:override (*os.File).Write = github.com/hashicorp/serf/serf.vfFileWrite
//vf:override (*os.File).WriteString = github.com/hashicorp/serf/serf.vfFileWriteString
//vf:override (*os.File).Read = github.com/hashicorp/serf/serf.vfFileRead
//vf:override (*os.File).Seek = github.com/hashicorp/serf/serf.vfFileSeek
//vf:override (*os.File).Sync = github.com/hashicorp/serf/serf.vfFileSync
//vf:override (*os.File).Close = github.com/hashicorp/serf/serf.vfFileClose
//vf:override (*os.File).Stat = github.com/hashicorp/serf/serf.vfFileStat
//vf:numtokens
//vf:stub file system -> in-memory model (process-crash semantics: written bytes durable, bufio content volatile); bufio executed for real
//vf:override os.Stat = github.com/hashicorp/serf/serf.vfStat
//vf:override os.IsNotExist = github.com/hashicorp/serf/serf.vfIsNotExist
//vf:sched
//vf:switches quick=1 thorough=1
//vf:paths quick=800000 thorough=8000000
//vf:unwind 24
//vf:ticks quick=0 thorough=1
//vf:noyield atomic
//vf:bound threads stream || teeStream || harness (event, Leave, event, shutdown); ticker fires at any decision; 1..2 nodes recorded before (fixed names), fixed clocks (not the subject); compaction never | on the first append only (thorough: | on every append), working or failing at its first step every time; rejoin-after-leave on or off
//vf:outside events still queued when the leave is signalled are covered (they race with the leave); events lost because the 2048-slot queue overflows are not
//vf:nonative
func VfC13_Leave() {
	vfFSReset()
	vfFixClock() // wall-clock time only decides when buffered lines are flushed early; shutdown flushes anyway
	// the recorded state before this run
	var content string
	for i, n := range []string{"a", "b"} {
		if i == 0 || vfBool("alive") {
			content += fmt.Sprintf("alive: %s %s\n", n, (&net.TCPAddr{IP: vfAddrs[i], Port: 7946}).String())
		}
	}
	content += fmt.Sprintf("clock: %d\nevent-clock: %d\nquery-clock: %d\n", uint64(5), uint64(6), uint64(7))
	rejoin := vfBool("rejoinAfterLeave")
	minCompact := 1 << 30 // never compacts on size
	switch vfChoice("compaction", 2+vfTier()) {
	case 2:
		// the size threshold is max(minCompactSize, 256 bytes per alive node): a file
		// that already carries 600 bytes of (ignored) comment is past it at every append
		minCompact = 2
		content = "#" + strings.Repeat("x", 600) + "\n" + content
	case 1:
		// only the FIRST append crosses the threshold (the compacted file is far below it)
		content = "#" + strings.Repeat("x", 600) + "\n" + content
		minCompact = len(content) + 3
	}
	vfDir[vfSnapPath] = &vfInode{data: []byte(content)}
	var clock LamportClock
	clock.counter.Store(9)
	shutdown := make(chan struct{})
	_, s, err := NewSnapshotter(vfSnapPath, minCompact, rejoin, nil, &clock, nil, shutdown)
	vfAssert("C13.open", err == nil && s != nil)
	if minCompact != 1<<30 && vfBool("compactionBroken") {
		// from now on no compaction can create its temporary file: the leave must be recorded all the same
		vfFailTruncOpens = true
	}
	if vfBool("eventBefore") {
		s.streamCh <- MemberEvent{Type: EventMemberJoin, Members: []Member{{Name: "c", Addr: vfAddrs[1], Port: 7946}}}
	}
	s.Leave()
	s.streamCh <- MemberEvent{Type: EventMemberJoin, Members: []Member{{Name: "d", Addr: vfAddrs[1], Port: 7946}}}
	close(shutdown)
	s.Wait()
	vfWaitThreads()
	vfReach("C13.shutdown.complete")
	vfAssert("C13.leaving", s.leaving)
	atLeave := map[string]string{}
	if rejoin {
		for k, v := range s.aliveNodes {
			atLeave[k] = v
		}
	}
	// nothing recorded after the leave
	_, hasD := s.aliveNodes["d"]
	vfAssert("C13.after.leave.ignored", !hasD)
	vfRestartProcess()
	var c2 LamportClock
	_, r, err2 := NewSnapshotter(vfSnapPath, 1<<30, rejoin, nil, &c2, nil, make(chan struct{}))
	vfAssert("C13.reopen", err2 == nil && r != nil)
	got := r.AliveNodes()
	vfReach("C13.restarted")
	if rejoin {
		vfAssert("C13.rejoin.on.set.at.leave", vfSameNodes(got, atLeave))
	} else {
		vfAssert("C13.rejoin.off.empty", len(got) == 0)
	}
}
