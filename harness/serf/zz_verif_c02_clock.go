//go:build verif

package serf

// C02, locally originated intents: "left once it is down after a leave or
// force-leave newer than its latest join" needs the force-leave a replica
// originates to be newer than every status time that replica holds. That is the
// clock invariant I02c: the local Lamport clock is strictly ahead of every
// member's status time and of every buffered intent. VfC02_ClockStep shows each
// handler keeps I02c (one inductive step from an arbitrary state satisfying
// it), VfC02_ForceLeave shows that under I02c a locally originated force-leave
// is applied.

// vfI02c: clock strictly ahead of all status times and buffered intents.
func vfI02c(s *Serf) bool {
	c := s.clock.Time()
	ok := true
	for _, m := range s.members {
		ok = vfAnd(ok, m.statusLTime < c)
	}
	for _, in := range s.recentIntents {
		ok = vfAnd(ok, in.LTime < c)
	}
	return ok
}

func vfC02ClockState() (*Serf, []*memberState) {
	s := vfNewSerf("self", 1)
	all := vfMembers(s, 2)
	vfArbIntents(s, []string{"m2"})
	s.clock.counter.Store(vfU64("clock"))
	// Create() starts every clock at 1 ("ensure our lamport clock is at least 1"), a fresh member has status time 0
	vfAssume(s.clock.Time() >= 1)
	vfAssume(vfI02c(s))
	return s, all
}

// VfC02_ClockStep: one intent (any kind, any time below 2^64-1), memberlist
// join or state-sync merge from a state satisfying I02c: I02c holds afterwards.
//
//vf:unwind 8
//vf:bound state 2 members of symbolic presence/status/status time + buffered intent for 1 unknown node, symbolic clock; step: intent (kind, time, prune symbolic) for a known or unknown node | memberlist join | merge of a remote state with 2 status times
//vf:outside intent time 2^64-1, remote status time >= 2^64-2 (the clock saturates there: C19's recorded finding)
//vf:stub codec -> identity on tokens
func VfC02_ClockStep() {
	s, _ := vfC02ClockState()
	who := vfChoice("who", 3)
	name := vfNames[who]
	switch vfChoice("step", 3) {
	case 0:
		lt := LamportTime(vfU64("lt"))
		vfAssume(lt < 1<<64-1)
		if vfBool("isLeave") {
			s.handleNodeLeaveIntent(&messageLeave{LTime: lt, Node: name, Prune: vfBool("prune")})
		} else {
			s.handleNodeJoinIntent(&messageJoin{LTime: lt, Node: name})
		}
		vfAssert("C02.clock.intent.witnessed", s.clock.Time() > lt)
	case 1:
		s.handleNodeJoin(vfNode(name))
	case 2:
		t0, t1 := LamportTime(vfU64("rt0")), LamportTime(vfU64("rt1"))
		rl := LamportTime(vfU64("rclock"))
		// a left member's status time is replayed as a leave at time+1
		vfAssume(t0 < 1<<64-2)
		vfAssume(t1 < 1<<64-2)
		// the sender's state satisfies I02c itself
		vfAssume(t0 < rl)
		vfAssume(t1 < rl)
		pp := messagePushPull{LTime: rl, StatusLTimes: map[string]LamportTime{"m0": t0, name: t1}}
		if vfBool("rleft") {
			pp.LeftMembers = []string{name}
		}
		d := &delegate{serf: s}
		b, _ := encodeMessage(messagePushPullType, &pp, false)
		d.MergeRemoteState(b, false)
	}
	vfReach("C02.clock.step.done")
	vfAssert("C02.clock.invariant", vfI02c(s))
}

// VfC02_ForceLeave: under I02c a force-leave (no prune) this replica originates
// for a known member is newer than the member's status time: failed -> left,
// alive -> leaving, and the status time becomes the intent's.
//
//vf:unwind 8
//vf:bound state as VfC02_ClockStep; clock below 2^64-1
//vf:stub codec -> identity on tokens
func VfC02_ForceLeave() {
	s, all := vfC02ClockState()
	who := vfChoice("who", 2)
	vfAssume(all[who] != nil)
	m := all[who]
	pre := m.Status
	c := s.clock.Time()
	vfAssume(c < 1<<64-1)
	s.forceLeave(m.Name, false)
	vfReach("C02.forceleave.done")
	vfAssert("C02.forceleave.applied", m.statusLTime == c)
	switch pre {
	case StatusFailed:
		vfAssert("C02.forceleave.failed.left", m.Status == StatusLeft)
	case StatusAlive:
		vfAssert("C02.forceleave.alive.leaving", m.Status == StatusLeaving)
	}
	vfAssert("C02.forceleave.invariant", vfI02c(s))
}
