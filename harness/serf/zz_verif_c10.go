//go:build verif

package serf

import (
	"net"
)

// C10: restart from a snapshot restores the rejoin set and clocks exactly.
//
// History induction: replay is a left fold over the file's lines and compaction
// rewrites the file from memory, so it is enough to start from the file that
// the REAL compaction writes for an arbitrary in-memory state, perform ONE
// arbitrary recording step (member event, user event, query, clock update;
// the compaction threshold is symbolic, so the step compacts or not), flush,
// and restart with the REAL NewSnapshotter/replay: the restored rejoin set and
// clocks must equal the in-memory ones.

const vfSnapPath = "/snap/local.snapshot"

var vfAddrs = [2]net.IP{{10, 0, 0, 1}, {10, 0, 0, 2}}

// vfSnapOpen opens a snapshotter through the real constructor.
func vfSnapOpen(minCompact int, rejoin bool, clock *LamportClock) *Snapshotter {
	_, snap, err := NewSnapshotter(vfSnapPath, minCompact, rejoin, nil, clock, nil, make(chan struct{}))
	vfAssert("C10.open.ok", err == nil && snap != nil)
	return snap
}

// vfSnapArbitrary: a snapshotter whose memory holds an arbitrary state (0..2 alive
// nodes with symbolic 1-byte names, symbolic clocks) and whose file is what the
// real compaction writes for that state.
func vfSnapArbitrary(clock *LamportClock, rejoin bool) *Snapshotter {
	s := vfSnapOpen(vfInt("minCompact"), rejoin, clock)
	for i := 0; i < 2; i++ {
		if vfBool("alive") {
			name := string(vfFixedBytes("name", 1))
			s.aliveNodes[name] = (&net.TCPAddr{IP: vfAddrs[i], Port: 7946}).String()
		}
	}
	s.lastClock = LamportTime(vfU64("lastClock"))
	s.lastEventClock = LamportTime(vfU64("lastEventClock"))
	s.lastQueryClock = LamportTime(vfU64("lastQueryClock"))
	vfAssert("C10.canonical.compact.ok", s.compact() == nil)
	return s
}

func vfSameNodes(got []*PreviousNode, want map[string]string) bool {
	ok := len(got) == len(want)
	for _, n := range got {
		a, has := want[n.Name]
		ok = vfAnd(ok, has)
		if has {
			ok = vfAnd(ok, a == n.Addr)
		}
	}
	return ok
}

// vfSnapRestartMatches restarts from the file and compares with memory.
func vfSnapRestartMatches(s *Snapshotter, pfx string) {
	mem := map[string]string{}
	for k, v := range s.aliveNodes {
		mem[k] = v
	}
	lc, le, lq := s.lastClock, s.lastEventClock, s.lastQueryClock
	var c2 LamportClock
	r := vfSnapOpen(1<<30, false, &c2)
	vfReach(pfx + ".restarted")
	vfAssert(pfx+".nodes", vfSameNodes(r.AliveNodes(), mem))
	vfAssert(pfx+".clock", r.LastClock() == lc)
	vfAssert(pfx+".event.clock", r.LastEventClock() == le)
	vfAssert(pfx+".query.clock", r.LastQueryClock() == lq)
}

// VfC10_Step: one recording step from an arbitrary compacted state, then restart.
//
//vf:override os.OpenFile = github.com/hashicorp/serf/serf.vfOpenFile
//vf:override os.Stat = github.com/hashicorp/serf/serf.vfStat
//vf:override os.Remove = github.com/hashicorp/serf/serf.vfRemove
//vf:override os.Rename = github.com/hashicorp/serf/serf.vfRename
//vf:override (*os.File).Write = github.com/hashicorp/serf/serf.vfFileWrite
//vf:override (*os.File).Read = github.com/hashicorp/serf/serf.vfFileRead
//vf:override (*os.File).Seek = github.com/hashicorp/serf/serf.vfFileSeek
//vf:override (*os.File).Sync = github.com/hashicorp/serf/serf.vfFileSync
//vf:override (*os.File).Close = github.com/hashicorp/serf/serf.vfFileClose
//vf:override (*os.File).Stat = github.com/hashicorp/serf/serf.vfFileStat
//vf:numtokens
//vf:stub file system -> in-memory model (process-crash semantics: written bytes durable, bufio content volatile); bufio executed for real
//vf:unwind 40
//vf:paths quick=800000 thorough=8000000
//vf:bound state 0..2 alive nodes with symbolic 1-byte names (quick) and 2 fixed addresses, symbolic 64-bit clocks, symbolic compaction threshold and flush timing; step: join (1 member, name symbolic) | leave | failed | user event | query | clock tick, all Lamport times symbolic
//vf:outside real file-system behaviour; lines longer than the bufio buffer (4096); names longer than 1 byte; decimal digit codec (trusted)
//vf:nonative
func VfC10_Step() {
	vfFSReset()
	var clock LamportClock
	c := vfU64("clock")
	vfAssume(c >= 1) // Create starts every clock at 1
	clock.counter.Store(c)
	s := vfSnapArbitrary(&clock, false)
	name := string(vfFixedBytes("evname", 1))
	switch vfChoice("step", 6) {
	case 0:
		s.processMemberEvent(MemberEvent{Type: EventMemberJoin, Members: []Member{{Name: name, Addr: vfAddrs[1], Port: 7946}}})
	case 1:
		s.processMemberEvent(MemberEvent{Type: EventMemberLeave, Members: []Member{{Name: name}}})
	case 2:
		s.processMemberEvent(MemberEvent{Type: EventMemberFailed, Members: []Member{{Name: name}}})
	case 3:
		s.processUserEvent(UserEvent{LTime: LamportTime(vfU64("elt")), Name: "e"})
	case 4:
		s.processQuery(&Query{LTime: LamportTime(vfU64("qlt")), Name: "q"})
	case 5:
		s.updateClock()
	}
	if s.buffered != nil {
		s.buffered.Flush() //nolint:errcheck
	}
	vfSnapRestartMatches(s, "C10.step")
}
