//go:build verif

package serf

import "net"

// C10: restart from a snapshot restores the rejoin set and clocks exactly.
//
// History induction: replay is a left fold over the file's lines and compaction
// rewrites the file from memory, so it is enough to start from the file that
// the REAL compaction writes for an arbitrary in-memory state, perform ONE
// arbitrary recording step (member event, user event, query, clock update;
// the compaction threshold is symbolic, so the step compacts or not), flush,
// and restart with the REAL NewSnapshotter/replay: the restored rejoin set and
// clocks must equal the in-memory ones.

// VfC10_Step: one recording step from an arbitrary compacted state, then restart.
//
//vf:override os.OpenFile = github.com/hashicorp/serf/serf.vfOpenFile
//vf:override os.Stat = github.com/hashicorp/serf/serf.vfStat
//vf:override os.IsNotExist = github.com/hashicorp/serf/serf.vfIsNotExist
//vf:override os.Remove = github.com/hashicorp/serf/serf.vfRemove
//vf:override os.Rename = github.com/hashicorp/serf/serf.vfRename
//vf:override (*os.File).Write = github.com/hashicorp/serf/serf.vfFileWrite
//vf:override (*os.File).WriteString = github.com/hashicorp/serf/serf.vfFileWriteString
//vf:override (*os.File).Read = github.com/hashicorp/serf/serf.vfFileRead
//vf:override (*os.File).Seek = github.com/hashicorp/serf/serf.vfFileSeek
//vf:override (*os.File).Sync = github.com/hashicorp/serf/serf.vfFileSync
//vf:override (*os.File).Close = github.com/hashicorp/serf/serf.vfFileClose
//vf:override (*os.File).Stat = github.com/hashicorp/serf/serf.vfFileStat
//vf:numtokens
//vf:stub file system -> in-memory model (process-crash semantics: written bytes durable, bufio content volatile); bufio executed for real
//vf:unwind 40
//vf:paths quick=800000 thorough=8000000
//vf:bound state 0..2 alive nodes with symbolic 1-byte names (quick) and 2 fixed addresses, symbolic 64-bit clocks, symbolic compaction threshold and flush timing; step: join (1 member, name of quick=1 thorough=2 symbolic bytes, thorough: IPv4 or IPv6 address) | leave | failed | user event | query | clock tick, all Lamport times symbolic
//vf:outside real file-system behaviour; lines longer than the bufio buffer (4096); names longer than 2 bytes; decimal digit codec (trusted)
//vf:nonative
func VfC10_Step() {
	vfFSReset()
	var clock LamportClock
	c := vfU64("clock")
	vfAssume(c >= 1) // Create starts every clock at 1
	clock.counter.Store(c)
	s := vfSnapArbitrary(&clock, false)
	name := string(vfFixedBytes("evname", 1+vfTier()))
	addr := vfAddrs[1]
	if vfTier() == 1 {
		// thorough: 2-byte names (leading / trailing / only spaces ...) and an IPv6 address for the joining member
		for i := 0; i < len(name); i++ {
			vfAssume(name[i] != '\n') // C10's recorded finding (newline in a name) is reported by the 1-byte state names
		}
		if vfBool("v6") {
			addr = net.IP{0x20, 0x01, 0x0d, 0xb8, 0, 0, 0, 0, 0, 0, 0, 0, 0, 0, 0, 1}
		}
	}
	switch vfChoice("step", 6) {
	case 0:
		s.processMemberEvent(MemberEvent{Type: EventMemberJoin, Members: []Member{{Name: name, Addr: addr, Port: 7946}}})
	case 1:
		s.processMemberEvent(MemberEvent{Type: EventMemberLeave, Members: []Member{{Name: name}}})
	case 2:
		s.processMemberEvent(MemberEvent{Type: EventMemberFailed, Members: []Member{{Name: name}}})
	case 3:
		s.processUserEvent(UserEvent{LTime: LamportTime(vfU64("elt")), Name: "e"})
	case 4:
		s.processQuery(&Query{LTime: LamportTime(vfU64("qlt")), Name: "q"})
	case 5:
		s.updateClock()
	}
	if s.buffered != nil {
		s.buffered.Flush() //nolint:errcheck
	}
	vfSnapRestartMatches(s, "C10.step")
}
