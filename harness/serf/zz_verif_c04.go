//go:build verif

package serf


// C04: gossip of intents, user events and queries always dies out.
// C05 shares the scenario (see zz_verif_c05.go).

// The ABA scenarios: from an ARBITRARY state, deliver message A, then one
// arbitrary other input B, then A again. The second delivery of A must queue
// nothing on any broadcast queue (A has been recorded and the record survives
// B) and deliver nothing to the application (C05). By induction every message
// is re-queued at most once per retention window, for histories of any length.
// Erasing a member (prune, reap) and expiry of buffered intents discard the
// record by design: that is the end of the retention window, so B excludes them.

// VfC04_IntentABA: A is a join or leave intent (leave possibly with prune) for
// any of 2 known members or an unknown node; B is any intent without prune or a
// memberlist join/leave/update notification for any node, or nothing.
//
//vf:unwind 16
//vf:paths quick=400000 thorough=4000000
//vf:bound state quick=1 thorough=2 known members (symbolic presence/status/status time) + buffered intent for 1 unknown node; clock and message times symbolic below 2^62
//vf:stub codec -> identity on tokens; transmit queues recorded
//vf:outside prune/reap/intent expiry between the two deliveries (end of the retention window by design); times >= 2^62 (wrap, see C19)
//vf:nonative
func VfC04_IntentABA() {
	nm := 1
	if vfTier() == 1 {
		nm = 2
	}
	vfC04Names = nm + 1
	s := vfNewSerf("self", 1)
	vfMembers(s, nm)
	vfArbIntents(s, []string{vfNames[nm]})
	c := vfU64("clock")
	vfAssume(c < 1<<62)
	s.clock.counter.Store(c)
	s.eventJoinIgnore.Store(false)
	d := &delegate{serf: s}
	a := vfC04Msg(vfChoice("akind", 2), true)
	d.NotifyMsg(a)
	switch vfChoice("bkind", 6) {
	case 0, 1:
		d.NotifyMsg(vfC04Msg(vfChoice("bmsg", 2), false))
	case 2:
		s.handleNodeJoin(vfNode(vfPickName(vfC04Names)))
	case 3:
		s.handleNodeLeave(vfNode(vfPickName(vfC04Names)))
	case 4:
		s.handleNodeUpdate(vfNode(vfPickName(vfC04Names)))
	case 5:
	}
	vfC04Finish(s, d, a)
}

// VfC04_EventABA: A and B are user events with fully symbolic times, names and
// payloads (so same-slot collisions t == t' mod N are covered); the buffer has
// symbolic content, clock and cut-off.
//
//vf:unwind 16
//vf:paths quick=400000 thorough=4000000
//vf:bound state event buffer of length quick=2 thorough=4, each slot empty or a symbolic time with <=1 recorded event; names/payloads 1 symbolic byte; times below 2^62
//vf:stub codec -> identity on tokens; transmit queues recorded
func VfC04_EventABA() { vfEventABA() }

// VfC04_QueryABA: the same for queries (de-duplication by time and id).
//
//vf:unwind 16
//vf:paths quick=400000 thorough=4000000
//vf:bound state query buffer of length quick=2 thorough=4, each slot empty or a symbolic time with <=1 recorded id; times below 2^62
//vf:stub codec -> identity on tokens; transmit queues and transport recorded
//vf:nonative
func VfC04_QueryABA() {
	n := 2
	if vfTier() == 1 {
		n = 4 // a power of two like the default 512: time%3 (64-bit bvurem by 3) in every query is beyond the solvers here
	}
	s := vfNewSerf("self", n)
	vfArbQueryBuffer(s, n)
	d := &delegate{serf: s}
	a := vfC04Msg(3, false)
	d.NotifyMsg(a)
	if vfBool("withB") {
		d.NotifyMsg(vfC04Msg(3, false))
	}
	vfC04Finish(s, d, a)
}

// VfC04_MergeMembers / VfC04_MergeEvents: a state-sync merge of an arbitrary
// bounded payload (status times, left members, events; as initial join or
// periodic sync) queues nothing on any broadcast queue. (Claims about the local
// node are C03's subject.) The member part and the event part of the merge do
// not interact (disjoint state), so they are explored separately: the path
// count is the sum instead of the product.
//
//vf:unwind 16
//vf:paths quick=400000 thorough=4000000
//vf:bound state 1 known member + buffered intent for an unknown node; payload: status times for <=2 names (each may be listed as left); all times symbolic below 2^62
//vf:stub codec -> identity on tokens; transmit queues recorded
//vf:nonative
func VfC04_MergeMembers() {
	s := vfNewSerf("self", 2)
	vfMembers(s, 1)
	vfArbIntents(s, []string{"m1"})
	c := vfU64("clock")
	vfAssume(c < 1<<62)
	s.clock.counter.Store(c)
	s.eventJoinIgnore.Store(vfBool("joinIgnore"))
	d := &delegate{serf: s}
	buf, _ := vfArbPushPullParts([]string{"m0", "m1"}, false)
	q0 := vfQueuedTotal(s)
	d.MergeRemoteState(buf, vfBool("isJoin"))
	vfReach("C04.merge.done")
	vfAssert("C04.merge.noqueue", vfQueuedTotal(s) == q0)
	vfAssert("C04.merge.nospawn", vfSpawnedCount() == 0)
}

//vf:unwind 16
//vf:paths quick=400000 thorough=4000000
//vf:bound state event buffer of length 2 with symbolic content; payload: <=1 recorded event, symbolic clocks; all times symbolic below 2^62
//vf:stub codec -> identity on tokens; transmit queues recorded
//vf:nonative
func VfC04_MergeEvents() {
	s := vfNewSerf("self", 2)
	vfArbEventBuffer(s, 2)
	s.eventJoinIgnore.Store(vfBool("joinIgnore"))
	d := &delegate{serf: s}
	buf, _ := vfArbPushPullParts(nil, true)
	q0 := vfQueuedTotal(s)
	d.MergeRemoteState(buf, vfBool("isJoin"))
	vfReach("C04.mergeev.done")
	vfAssert("C04.mergeev.noqueue", vfQueuedTotal(s) == q0)
	vfAssert("C04.mergeev.nospawn", vfSpawnedCount() == 0)
}
