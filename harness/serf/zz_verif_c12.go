//go:build verif

package serf

import (
	"net"
	"time"
)

// C12: snapshot I/O failures never crash the node and recording resumes.
//
// From the file the real compaction writes for an arbitrary in-memory state,
// three recording steps run; ONE file-system operation of the first step
// (symbolic index: any open, write, sync, close, remove, rename - inside a
// compaction or not) fails. Time is symbolic, so the 30 s error-recovery
// compaction runs or not at each later step. Obligations: no panic anywhere
// (the engine's implicit assertion: a nil file handle or writer dereference
// would be one), and once the snapshotter is writing again (its final flush
// succeeds) a restart reflects everything recorded, including the steps after
// the fault.

//vf:override os.OpenFile = github.com/hashicorp/serf/serf.vfOpenFile
//vf:override os.Remove = github.com/hashicorp/serf/serf.vfRemove
//vf:override os.Rename = github.com/hashicorp/serf/serf.vfRename
//vf:override (*os.File).Write = github.com/hashicorp/serf/serf.vfFileWrite
//vf:override (*os.File).WriteString = github.com/hashicorp/serf/serf.vfFileWriteString
//vf:override (*os.File).Read = github.com/hashicorp/serf/serf.vfFileRead
//vf:override (*os.File).Seek = github.com/hashicorp/serf/serf.vfFileSeek
//vf:override (*os.File).Sync = github.com/hashicorp/serf/serf.vfFileSync
//vf:override (*os.File).Close = github.com/hashicorp/serf/serf.vfFileClose
//vf:override (*os.File).Stat = github.com/hashicorp/serf/serf.vfFileStat
//vf:numtokens
//vf:stub file system -> in-memory model (process-crash semantics: written bytes durable, bufio content volatile); bufio executed for real
//vf:override os.Stat = github.com/hashicorp/serf/serf.vfStat
//vf:override os.IsNotExist = github.com/hashicorp/serf/serf.vfIsNotExist
//vf:unwind 40
//vf:paths quick=800000 thorough=8000000
//vf:bound state 0..1 alive node (fixed names: the line format is C10's subject), symbolic clocks; compaction on every append or never on size; steps: (join | failed | clock tick), user event (thorough: + query) - all Lamport times symbolic; fault: any one of the first 12 file-system operations; elapsed time between steps symbolic; last recovery attempt never | a symbolic time back
//vf:outside more than one fault; faults while the pre-state is written
//vf:nonative
func VfC12_FaultSteps() {
	vfFSReset()
	var clock LamportClock
	c := vfU64("clock")
	vfAssume(c >= 1)
	clock.counter.Store(c)
	minCompact := 1 << 30 // never compacts on size
	if vfBool("compactsOnEveryAppend") {
		minCompact = 2
	}
	s := vfSnapOpen(minCompact, false, &clock)
	if vfBool("alive") {
		s.aliveNodes["a"] = (&net.TCPAddr{IP: vfAddrs[0], Port: 7946}).String()
	}
	s.lastClock = LamportTime(vfU64("lastClock"))
	s.lastEventClock = LamportTime(vfU64("lastEventClock"))
	s.lastQueryClock = LamportTime(vfU64("lastQueryClock"))
	vfAssert("C12.setup", s.compact() == nil && s.buffered.Flush() == nil)
	name := "a"
	if vfBool("otherNode") {
		name = "b"
	}
	// an earlier recovery attempt may lie a symbolic time back (within the 30 s retry interval or not)
	L0 := s.lastAttemptedCompaction
	if vfBool("recentAttempt") {
		L0 = vfTime("lastAttempt")
		vfAssume(!L0.After(time.Now()))
		s.lastAttemptedCompaction = L0
	}
	vfOps = 0
	vfTruncOpens = 0
	vfFailAt = 1 + vfChoice("failAt", 12)
	switch vfChoice("step1", 3) {
	case 0:
		s.processMemberEvent(MemberEvent{Type: EventMemberJoin, Members: []Member{{Name: name, Addr: vfAddrs[1], Port: 7946}}})
	case 1:
		s.processMemberEvent(MemberEvent{Type: EventMemberFailed, Members: []Member{{Name: name}}})
	case 2:
		s.updateClock()
	}
	vfReach("C12.step1.survived")
	faultInStep1 := vfOps >= vfFailAt
	vfFailAt = -1 // the fault was transient
	// retry rule: a failed append re-attempts the compaction when the last ATTEMPT is more than 30 s back. If
	// step 1 left the snapshotter broken without attempting a compaction (none was due yet) and by step 2 the
	// last attempt is more than 30 s back, step 2 must attempt one - on a file system that works again.
	attempted1 := vfTruncOpens > 0
	broken1 := s.buffered == nil || s.fh == nil || s.buffered.Flush() != nil
	retryDue := broken1 && !attempted1 && time.Now().Sub(L0) > snapshotErrorRecoveryInterval
	before2 := s.lastAttemptedCompaction
	ops2 := vfOps
	elt := LamportTime(vfU64("elt"))
	retryDue = retryDue && elt > s.lastEventClock // ... provided step 2 records something at all
	s.processUserEvent(UserEvent{LTime: elt, Name: "e"})
	vfReach("C12.step2.survived")
	// a recovery compaction that ran in step 2 (after the fault had cleared) must have brought the snapshot back
	recoveryRan := faultInStep1 && !s.lastAttemptedCompaction.Equal(before2)
	_ = ops2
	if vfTier() == 1 {
		s.processQuery(&Query{LTime: LamportTime(vfU64("qlt")), Name: "q"})
	}
	faultHappened := faultInStep1
	// what the shutdown path does: flush, sync, close
	healthy := s.buffered != nil && s.fh != nil && s.buffered.Flush() == nil
	vfAssert("C12.fault.cleared.eventually.healthy", vfImplies(!faultHappened, healthy))
	vfAssert("C12.recovery.compaction.restores.recording", vfImplies(recoveryRan, healthy))
	vfAssert("C12.recovery.retry.when.due", vfImplies(retryDue, healthy))
	if healthy {
		vfSnapRestartMatches(s, "C12.resumed")
	}
}
