//go:build verif

package serf

// C18: user event coalescing keeps exactly the newest events per name.

type vfC18ev struct {
	name int
	t    LamportTime
	id   byte
}

// VfC18_Seq drives the real userEventCoalescer with coalescable user events
// (symbolic name out of two, fully symbolic Lamport time incl. ties) and a
// symbolic flush after each; every flush must emit, per name, exactly the
// pending events whose time equals the maximum pending time, in arrival order.
//
//vf:unwind 12
//vf:bound events quick=3 thorough=4
//vf:bound names 2 event names, 64-bit symbolic times, flush point after every event symbolic
func VfC18_Seq() {
	n := 3
	if vfTier() == 1 {
		n = 4
	}
	c := &userEventCoalescer{events: make(map[string]*latestUserEvents)}
	out := make(chan Event, 16)
	names := [2]string{"a", "b"}
	var pend []vfC18ev
	for step := 0; step < n; step++ {
		i := 0
		if vfBool("m") {
			i = 1
		}
		t := LamportTime(vfU64("t"))
		ev := UserEvent{LTime: t, Name: names[i], Payload: []byte{byte(step)}, Coalesce: true}
		vfAssert("C18.handle", c.Handle(ev))
		c.Coalesce(ev)
		pend = append(pend, vfC18ev{i, t, byte(step)})
		if step == n-1 || vfBool("flush") {
			c.Flush(out)
			var got [2][]byte
			for len(out) > 0 {
				e := (<-out).(UserEvent)
				j := 0
				if e.Name == "b" {
					j = 1
				}
				got[j] = append(got[j], e.Payload[0])
			}
			for j := 0; j < 2; j++ {
				// maximal pending time of this name
				var mx uint64
				for _, p := range pend {
					if p.name == j {
						mx = vfIteU64(uint64(p.t) > mx, uint64(p.t), mx)
					}
				}
				ordered := true
				for x := 1; x < len(got[j]); x++ {
					if got[j][x-1] >= got[j][x] {
						ordered = false
					}
				}
				vfAssert("C18.arrival.order", ordered)
				for _, p := range pend {
					if p.name != j {
						continue
					}
					emitted := 0
					for _, id := range got[j] {
						if id == p.id {
							emitted++
						}
					}
					vfAssert("C18.atmostonce", emitted <= 1)
					vfAssert("C18.newest.exactly", (emitted == 1) == (uint64(p.t) == mx))
				}
				for _, id := range got[j] {
					found := false
					for _, p := range pend {
						if p.name == j && p.id == id {
							found = true
						}
					}
					vfAssert("C18.nothing.else", found)
				}
			}
			pend = pend[:0]
			vfReach("C18.flush")
		}
	}
}

// VfC18_Handle: events not marked coalescable and events of other kinds are
// not handled by the coalescer (so the loop passes them through).
func VfC18_Handle() {
	c := &userEventCoalescer{events: make(map[string]*latestUserEvents)}
	co := vfBool("coalesce")
	vfAssert("C18.handle.flag", c.Handle(UserEvent{LTime: LamportTime(vfU64("t")), Name: "a", Coalesce: co}) == co)
	k := EventType(vfInt("k"))
	vfAssume(k >= EventMemberJoin)
	vfAssume(k <= EventMemberReap)
	vfAssert("C18.handle.member", !c.Handle(MemberEvent{Type: k}))
	vfAssert("C18.handle.query", !c.Handle(&Query{Name: "q"}))
}

// VfC18_Loop runs the real coalesceLoop as a thread with the user-event
// coalescer: three events are fed (each symbolically coalescable or not),
// timers fire at arbitrary points, then shutdown. Pass-through events must
// come out exactly once and in their arrival order; every coalescable name's
// newest event must have been flushed by shutdown; nothing is duplicated.
//
//vf:sched
//vf:switches quick=2 thorough=3
//vf:paths quick=800000 thorough=8000000
//vf:unwind 16
//vf:bound events 3 user events, timers fire at any scheduling decision
//vf:nonative
func VfC18_Loop() {
	in := make(chan Event, 8)
	out := make(chan Event, 16)
	shutdown := make(chan struct{})
	c := &userEventCoalescer{events: make(map[string]*latestUserEvents)}
	vfGo(func() { coalesceLoop(in, out, shutdown, 0, 0, c) })
	var co [3]bool
	for i := 0; i < 3; i++ {
		co[i] = vfBool("co")
		in <- UserEvent{LTime: LamportTime(i + 1), Name: "a", Payload: []byte{byte(i)}, Coalesce: co[i]}
	}
	// let the loop drain its input before shutdown is signalled
	for len(in) > 0 {
		vfYieldTo()
	}
	close(shutdown)
	vfWaitThreads()
	var seen [3]int
	lastPass := -1
	passOrdered := true
	for len(out) > 0 {
		e := (<-out).(UserEvent)
		id := int(e.Payload[0])
		seen[id]++
		if !e.Coalesce {
			if id < lastPass {
				passOrdered = false
			}
			lastPass = id
		}
	}
	vfReach("C18.loop.done")
	vfAssert("C18.loop.pass.order", passOrdered)
	newest := -1
	for i := 0; i < 3; i++ {
		if co[i] {
			newest = i
		}
	}
	for i := 0; i < 3; i++ {
		if !co[i] {
			vfAssert("C18.loop.pass.once", seen[i] == 1)
		} else {
			vfAssert("C18.loop.coalesced.atmostonce", seen[i] <= 1)
			if i == newest {
				vfAssert("C18.loop.newest.flushed", seen[i] == 1)
			}
		}
	}
}
