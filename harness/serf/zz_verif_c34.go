//go:build verif

package serf

// C34: Serf lifecycle state only moves forward.

type vfC34Res struct {
	op      int // 0 join, 1 leave, 2 shutdown
	before  SerfState
	err     error
	didCall bool
}

func vfC34Do(s *Serf, op int, r *vfC34Res) {
	r.op = op
	r.before = s.State()
	switch op {
	case 0:
		_, r.err = s.Join([]string{"peer"}, false)
	case 1:
		r.err = s.Leave()
	case 2:
		r.err = s.Shutdown()
	}
	r.didCall = true
}

// VfC34_Pairs: two lifecycle calls (each join, leave or shutdown) run
// concurrently while an observer samples the reported state; afterwards the
// idempotence clauses are checked sequentially.
//
//vf:sched
//vf:switches quick=2 thorough=3
//vf:paths quick=800000 thorough=8000000
//vf:unwind 16
//vf:noyield atomic
//vf:bound reduction no pre-emption at Lamport-clock atomics and at memberLock/joinLock/queryLock operations: those critical sections do not read or write the lifecycle state (blocking on them is still modelled)
//vf:bound threads 2 concurrent lifecycle calls (9 combinations) + observer sampling State() 3 times; member table with 1 other member of symbolic status
//vf:stub memberlist Join/Leave/Shutdown -> recorded, arbitrary result and error; transmit queue recorded (leave notification never arrives: the broadcast timeout path is taken)
//vf:nonative
func VfC34_Pairs() {
	s := vfNewSerf("self", 1)
	s.members["self"] = &memberState{Member: Member{Name: "self", Status: StatusAlive}}
	vfMembers(s, 1)
	vfQuietLock(&s.memberLock)
	vfQuietLock(&s.joinLock)
	var r1, r2 vfC34Res
	op1, op2 := vfChoice("op1", 3), vfChoice("op2", 3)
	vfGo(func() { vfC34Do(s, op2, &r2) })
	vfGo(func() { vfC34Do(s, op1, &r1) })
	var obs [3]SerfState
	for i := range obs {
		obs[i] = s.State()
	}
	vfWaitThreads()
	final := s.State()
	vfReach("C34.pairs.done")
	vfAssert("C34.forward.observed", obs[0] <= obs[1] && obs[1] <= obs[2] && obs[2] <= final)
	vfAssert("C34.forward.calls", r1.before <= final && r2.before <= final)
	vfAssert("C34.calls.returned", r1.didCall && r2.didCall)
	for _, r := range []*vfC34Res{&r1, &r2} {
		switch r.op {
		case 0:
			// a join whose call began after a leave or shutdown had begun is refused
			if r.before != SerfAlive {
				vfAssert("C34.join.refused", r.err != nil)
			}
		case 1:
			if r.before == SerfLeft {
				vfAssert("C34.leave.after.left", r.err == nil)
			}
			if r.err == nil {
				vfAssert("C34.leave.ok.final", final == SerfLeft || final == SerfShutdown)
			}
		case 2:
			if r.err == nil {
				vfAssert("C34.shutdown.ok.final", final == SerfShutdown)
			}
			if r.before == SerfShutdown {
				vfAssert("C34.shutdown.repeat.ok", r.err == nil)
			}
		}
	}
	// sequential idempotence from whatever state was reached
	nj, nl, nsd := vfStubCalls("Join"), vfStubCalls("Leave"), vfStubCalls("Shutdown")
	if final == SerfShutdown {
		vfAssert("C34.shutdown.again.nil", s.Shutdown() == nil)
		vfAssert("C34.shutdown.again.noeffect", vfStubCalls("Shutdown") == nsd && s.State() == SerfShutdown)
	}
	if final == SerfLeft {
		vfAssert("C34.leave.again.nil", s.Leave() == nil)
		vfAssert("C34.leave.again.noeffect", vfStubCalls("Leave") == nl && s.State() == SerfLeft)
	}
	if final != SerfAlive {
		_, err := s.Join([]string{"peer"}, false)
		vfAssert("C34.join.later.refused", err != nil && vfStubCalls("Join") == nj)
	}
	vfAssert("C34.state.kept", s.State() == final)
}
