//go:build verif

package serf

// C03: a running member never reports itself departed and refutes newer claims.
//
// Inductive step: the local node is alive, its own record carries join time t,
// its clock is past t (every local join witnesses its own time), other members
// are arbitrary. One arbitrary claim about the local node arrives
// (leave / force-leave, with or without prune, any 64-bit Lamport time) through
// gossip or inside a state-sync payload. Goroutines started by the handler are
// collected (deferred mode) and then run by the harness.

func vfC03Setup() (*Serf, *memberState, uint64) {
	s := vfNewSerf("self", 1)
	vfMembers(s, 2)
	t := vfU64("selft")
	self := &memberState{
		Member:      Member{Name: "self", Status: StatusAlive, ProtocolMax: 5, ProtocolCur: 5},
		statusLTime: LamportTime(t),
	}
	s.members["self"] = self
	c := vfU64("clock")
	vfAssume(c > t) // the clock has witnessed the node's own latest join
	s.clock.counter.Store(c)
	s.eventJoinIgnore.Store(false)
	return s, self, t
}

// vfC03Check runs the collected goroutines and asserts the refutation contract.
// lt is the Lamport time of the claim; claimed says whether a claim about the
// local node was part of the input at all.
func vfC03Check(s *Serf, self *memberState, t, lt uint64, pfx string) {
	vfReach(pfx + ".done")
	// still alive, still listed, never put on the departed lists
	vfAssert(pfx+".alive", self.Status == StatusAlive)
	vfAssert(pfx+".listed", s.members["self"] == self)
	vfAssert(pfx+".notdeparted", vfInList(s.leftMembers, self) == 0 && vfInList(s.failedMembers, self) == 0)
	newer := lt > t
	if newer {
		vfAssert(pfx+".refute.spawned", vfSpawnedCount() == 1 && vfSpawnedName(0) == "(*github.com/hashicorp/serf/serf.Serf).broadcastJoin")
		q0 := s.broadcasts.NumQueued()
		vfRunSpawned(0)
		vfAssert(pfx+".refute.queued", s.broadcasts.NumQueued() == q0+1)
		msgs := s.broadcasts.GetBroadcasts(0, 1<<20)
		ok := false
		if len(msgs) > 0 {
			last := msgs[len(msgs)-1]
			var j messageJoin
			if len(last) > 1 && messageType(last[0]) == messageJoinType && decodeMessage(last[1:], &j) == nil {
				// the fresh join is about the local node and strictly newer than the claim
				ok = vfAnd(j.Node == "self", uint64(j.LTime) > lt)
				vfAssert(pfx+".refute.applied", self.statusLTime == j.LTime)
				vfAssert(pfx+".refute.clock", s.clock.Time() > j.LTime || uint64(j.LTime) == 1<<64-1)
			}
		}
		vfAssert(pfx+".refute.newer", ok)
		vfAssert(pfx+".refute.stillalive", self.Status == StatusAlive && s.members["self"] == self)
	} else {
		vfAssert(pfx+".stale.nospawn", vfSpawnedCount() == 0)
		vfAssert(pfx+".stale.unchanged", uint64(self.statusLTime) == t)
	}
}

// VfC03_Leave: a gossiped leave / force-leave (+prune) about the local node.
//
//vf:unwind 8
//vf:bound state local record with symbolic join time, clock past it, 2 other members of symbolic presence/status; claim time: all 64-bit values
//vf:stub codec -> identity on tokens; transmit queue recorded; goroutines deferred and run by the harness
//vf:nonative
func VfC03_Leave() {
	s, self, t := vfC03Setup()
	d := &delegate{serf: s}
	lt := vfU64("lt")
	msg, _ := encodeMessage(messageLeaveType, &messageLeave{LTime: LamportTime(lt), Node: "self", Prune: vfBool("prune")}, false)
	q0 := s.broadcasts.NumQueued()
	d.NotifyMsg(msg)
	// the claim itself is never re-broadcast by the node it is about
	vfAssert("C03.leave.norebroadcast", s.broadcasts.NumQueued() == q0)
	vfC03Check(s, self, t, lt, "C03.leave")
}

// VfC03_Merge: the local node is listed as left in a state-sync payload (the
// receiver derives the claim time as the listed status time + 1).
//
//vf:unwind 8
//vf:bound state as VfC03_Leave; payload lists the local node (and optionally m0) with symbolic status times, the local node as left
//vf:stub codec -> identity on tokens
//vf:nonative
func VfC03_Merge() {
	s, self, t := vfC03Setup()
	d := &delegate{serf: s}
	st := vfU64("ppst")
	pp := &messagePushPull{
		LTime:        LamportTime(vfU64("ppclock")),
		StatusLTimes: map[string]LamportTime{"self": LamportTime(st)},
		LeftMembers:  []string{"self"},
	}
	if vfBool("ppOther") {
		pp.StatusLTimes["m0"] = LamportTime(vfU64("ppst0"))
	}
	buf, _ := encodeMessage(messagePushPullType, pp, false)
	d.MergeRemoteState(buf, vfBool("isJoin"))
	vfC03Check(s, self, t, st+1, "C03.merge")
}

// VfC03_NotAlive: once the node has begun leaving the refutation is not required
// (the property is conditional) but the handler must still not crash.
//
//vf:unwind 8
//vf:nonative
func VfC03_NotAlive() {
	s, _, _ := vfC03Setup()
	switch vfChoice("state", 2) {
	case 0:
		s.state = SerfLeaving
	case 1:
		s.state = SerfLeft
	}
	d := &delegate{serf: s}
	msg, _ := encodeMessage(messageLeaveType, &messageLeave{LTime: LamportTime(vfU64("lt")), Node: "self", Prune: false}, false)
	d.NotifyMsg(msg)
	vfReach("C03.notalive.done")
	vfAssert("C03.notalive.norefute", vfSpawnedCount() == 0)
}
