//go:build verif

package serf

import (
	"net"
	"time"

	"github.com/hashicorp/memberlist"
)

// C06: locally issued events and queries get unique, causally later Lamport times.

// VfC06_EventAfter: every user event the node originates carries a time
// strictly greater than that of a user event it had processed before the call.
//
//vf:unwind 12
//vf:bound values event clock and incoming time symbolic below 2^62; event buffer of length 4
func VfC06_EventAfter() {
	s := vfNewSerf("self", 4)
	c, p := vfU64("eclock"), vfU64("p")
	vfAssume(c < 1<<62)
	vfAssume(p < 1<<62)
	s.eventClock.counter.Store(c)
	s.handleUserEvent(&messageUserEvent{LTime: LamportTime(p), Name: "x"})
	vfDrainEvents(s)
	err := s.UserEvent("a", nil, false)
	evs := vfDrainEvents(s)
	vfReach("C06.event.after.done")
	vfAssert("C06.event.after.accepted", err == nil && len(evs) == 1)
	if len(evs) == 1 {
		ue := evs[0].(UserEvent)
		vfAssert("C06.event.after.later", uint64(ue.LTime) > p)
		vfAssert("C06.event.after.clock", s.eventClock.Time() > ue.LTime)
	}
}

// VfC06_Event2: two concurrent UserEvent calls never share a Lamport time, and
// both events are delivered locally (neither is mistaken for a duplicate).
//
//vf:sched
//vf:switches quick=3 thorough=4
//vf:paths quick=600000 thorough=6000000
//vf:unwind 12
//vf:bound threads 2 concurrent UserEvent calls; scheduling points at atomic operations, locks, channel operations
//vf:nonative
func VfC06_Event2() {
	s := vfNewSerf("self", 4)
	c := vfU64("eclock")
	vfAssume(c < 1<<62)
	s.eventClock.counter.Store(c)
	var e1, e2 error
	vfGo(func() { e2 = s.UserEvent("b", nil, false) })
	e1 = s.UserEvent("a", nil, false)
	vfWaitThreads()
	evs := vfDrainEvents(s)
	vfReach("C06.event2.done")
	vfAssert("C06.event2.accepted", e1 == nil && e2 == nil)
	vfAssert("C06.event2.both.delivered", len(evs) == 2)
	if len(evs) == 2 {
		a, b := evs[0].(UserEvent), evs[1].(UserEvent)
		vfAssert("C06.event2.distinct", a.LTime != b.LTime)
		vfAssert("C06.event2.later", uint64(a.LTime) >= c && uint64(b.LTime) >= c)
	}
}

func vfC06QuerySerf() *Serf {
	s := vfNewSerf("self", 4)
	vfSetLocalNode(&memberlist.Node{Name: "self", Addr: net.IP{10, 0, 0, 1}, Port: 7946})
	c := vfU64("qclock")
	vfAssume(c < 1<<62)
	s.queryClock.counter.Store(c)
	return s
}

// VfC06_QueryAfter: a query the node originates is later than a query it had
// processed before the call.
//
//vf:unwind 12
//vf:bound values query clock and incoming time symbolic below 2^62
//vf:nonative
func VfC06_QueryAfter() {
	s := vfC06QuerySerf()
	p := vfU64("p")
	vfAssume(p < 1<<62)
	s.handleQuery(&messageQuery{LTime: LamportTime(p), ID: 99, Name: "x", Timeout: time.Second, SourceNode: "o", Addr: []byte{10, 0, 0, 9}})
	vfDrainEvents(s)
	resp, err := s.Query("q", nil, &QueryParam{Timeout: time.Second})
	vfReach("C06.query.after.done")
	vfAssert("C06.query.after.accepted", err == nil && resp != nil)
	if resp != nil {
		vfAssert("C06.query.after.later", uint64(resp.lTime) > p)
		vfAssert("C06.query.after.clock", s.queryClock.Time() > resp.lTime)
	}
}

// VfC06_Query2: two concurrent Query calls never share a Lamport time, and both
// stay registered (neither overwrites the other's reply routing).
//
//vf:sched
//vf:switches quick=3 thorough=4
//vf:paths quick=600000 thorough=6000000
//vf:unwind 12
//vf:bound threads 2 concurrent Query calls; scheduling points at atomic operations, locks, channel operations
//vf:nonative
func VfC06_Query2() {
	s := vfC06QuerySerf()
	vfHoldTimers() // the one-second query timeouts do not fire while the calls run
	var r1, r2 *QueryResponse
	var e1, e2 error
	vfGo(func() { r2, e2 = s.Query("b", nil, &QueryParam{Timeout: time.Second}) })
	r1, e1 = s.Query("a", nil, &QueryParam{Timeout: time.Second})
	vfWaitThreads()
	vfReach("C06.query2.done")
	vfAssert("C06.query2.accepted", e1 == nil && e2 == nil && r1 != nil && r2 != nil)
	if r1 != nil && r2 != nil {
		vfAssert("C06.query2.distinct", r1.lTime != r2.lTime)
		vfAssert("C06.query2.both.registered", s.queryResponse[r1.lTime] == r1 && s.queryResponse[r2.lTime] == r2)
	}
}

// VfC06_EventVsIncoming: two incoming user events are processed concurrently
// (gossip and state sync run on different goroutines); a user event issued
// after both have been processed is later than both, whatever the interleaving
// of their clock updates was.
//
//vf:sched
//vf:switches quick=2 thorough=4
//vf:paths quick=600000 thorough=6000000
//vf:unwind 12
//vf:bound threads 2 concurrent incoming events with symbolic times below 2^62, then 1 local UserEvent
//vf:nonative
func VfC06_EventVsIncoming() {
	s := vfNewSerf("self", 1)
	c, p1, p2 := vfU64("eclock"), vfU64("p1"), vfU64("p2")
	vfAssume(c < 1<<62)
	vfAssume(p1 < 1<<62)
	vfAssume(p2 < 1<<62)
	s.eventClock.counter.Store(c)
	vfGo(func() { s.handleUserEvent(&messageUserEvent{LTime: LamportTime(p2), Name: "y"}) })
	s.handleUserEvent(&messageUserEvent{LTime: LamportTime(p1), Name: "x"})
	vfWaitThreads()
	vfDrainEvents(s)
	err := s.UserEvent("a", nil, false)
	evs := vfDrainEvents(s)
	vfReach("C06.event.incoming.done")
	vfAssert("C06.event.incoming.accepted", err == nil && len(evs) == 1)
	if len(evs) == 1 {
		ue := evs[0].(UserEvent)
		vfAssert("C06.event.incoming.later", uint64(ue.LTime) > p1 && uint64(ue.LTime) > p2)
	}
}

// VfC06_QueryVsIncoming: the same for queries.
//
//vf:sched
//vf:switches quick=2 thorough=4
//vf:paths quick=600000 thorough=6000000
//vf:unwind 12
//vf:bound threads 2 concurrent incoming queries with symbolic times below 2^62, then 1 local Query
//vf:nonative
func VfC06_QueryVsIncoming() {
	s := vfC06QuerySerf()
	s.queryBuffer = make([]*queries, 1)
	vfHoldTimers()
	p1, p2 := vfU64("p1"), vfU64("p2")
	vfAssume(p1 < 1<<62)
	vfAssume(p2 < 1<<62)
	vfGo(func() {
		s.handleQuery(&messageQuery{LTime: LamportTime(p2), ID: 98, Name: "y", Timeout: time.Second, SourceNode: "o", Addr: []byte{10, 0, 0, 9}})
	})
	s.handleQuery(&messageQuery{LTime: LamportTime(p1), ID: 99, Name: "x", Timeout: time.Second, SourceNode: "o", Addr: []byte{10, 0, 0, 9}})
	vfWaitThreads()
	resp, err := s.Query("q", nil, &QueryParam{Timeout: time.Second})
	vfReach("C06.query.incoming.done")
	vfAssert("C06.query.incoming.accepted", err == nil && resp != nil)
	if resp != nil {
		vfAssert("C06.query.incoming.later", uint64(resp.lTime) > p1 && uint64(resp.lTime) > p2)
	}
}
