//go:build verif

package serf

// C14 (snapshot side): what the node delivered is what the snapshot recorded.
// After a delivered user event / query with a time above the recorded one has
// been handed to the snapshotter and the node restarts (no graceful leave), the
// restored clock is at least that time - whether or not the append that records
// it triggers a compaction. Together with VfC14_Restore/Deliver (cut-off =
// recorded + 1) no delivered event or query is delivered again.

//vf:override os.OpenFile = github.com/hashicorp/serf/serf.vfOpenFile
//vf:override os.Remove = github.com/hashicorp/serf/serf.vfRemove
//vf:override os.Rename = github.com/hashicorp/serf/serf.vfRename
//vf:override (*os.File).Write = github.com/hashicorp/serf/serf.vfFileWrite
//vf:override (*os.File).WriteString = github.com/hashicorp/serf/serf.vfFileWriteString
//vf:override (*os.File).Read = github.com/hashicorp/serf/serf.vfFileRead
//vf:override (*os.File).Seek = github.com/hashicorp/serf/serf.vfFileSeek
//vf:override (*os.File).Sync = github.com/hashicorp/serf/serf.vfFileSync
//vf:override (*os.File).Close = github.com/hashicorp/serf/serf.vfFileClose
//vf:override (*os.File).Stat = github.com/hashicorp/serf/serf.vfFileStat
//vf:numtokens
//vf:stub file system -> in-memory model (process-crash semantics: written bytes durable, bufio content volatile); bufio executed for real
//vf:override os.Stat = github.com/hashicorp/serf/serf.vfStat
//vf:override os.IsNotExist = github.com/hashicorp/serf/serf.vfIsNotExist
//vf:unwind 40
//vf:paths quick=800000 thorough=8000000
//vf:bound state 0..1 alive node, symbolic 64-bit recorded clocks, symbolic compaction threshold and flush timing; one delivered user event or query with a symbolic time
//vf:nonative
func VfC14_Recorded() {
	vfFSReset()
	var clock LamportClock
	c := vfU64("clock")
	vfAssume(c >= 1)
	clock.counter.Store(c)
	s := vfSnapOpen(vfInt("minCompact"), false, &clock)
	if vfBool("alive") {
		s.aliveNodes["a"] = "10.0.0.1:7946"
	}
	s.lastClock = LamportTime(vfU64("lastClock"))
	s.lastEventClock = LamportTime(vfU64("lastEventClock"))
	s.lastQueryClock = LamportTime(vfU64("lastQueryClock"))
	vfAssert("C14.recorded.setup", s.compact() == nil)
	t := LamportTime(vfU64("t"))
	isQuery := vfBool("isQuery")
	if isQuery {
		s.processQuery(&Query{LTime: t, Name: "q"})
	} else {
		s.processUserEvent(UserEvent{LTime: t, Name: "e"})
	}
	if s.buffered != nil {
		s.buffered.Flush() //nolint:errcheck
	}
	var c2 LamportClock
	r := vfSnapOpen(1<<30, false, &c2)
	vfReach("C14.recorded.restarted")
	if isQuery {
		vfAssert("C14.recorded.query.clock", r.LastQueryClock() >= t)
	} else {
		vfAssert("C14.recorded.event.clock", r.LastEventClock() >= t)
	}
}
