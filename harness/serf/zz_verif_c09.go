//go:build verif

package serf

import (
	"errors"
	"net"
	"time"

	"github.com/hashicorp/memberlist"
	"github.com/hashicorp/serf/coordinate"
)

// C09: no network input crashes a node.
//
// Every entry point that receives bytes from the network is executed with
// structurally valid messages whose fields take arbitrary values (and with
// buffers that do not decode). The engine's implicit "does not crash"
// assertion (<harness>.nopanic) reports every feasible panic path: index or
// slice out of range, nil dereference, nil map write, send on closed channel,
// failed type assertion, division by zero, explicit panic.
// The byte-level msgpack decoder itself is NOT encoded (reflection): the
// decoder is the identity on token buffers, or fails.

var vfC09Names = [4]string{"m0", "self", "zz", ""}

func vfC09Serf() *Serf {
	s := vfNewSerf("self", 2)
	vfMembers(s, 1)
	s.members["self"] = &memberState{Member: Member{Name: "self", Status: StatusAlive, ProtocolMax: 5, ProtocolCur: 5}}
	vfArbEventBuffer(s, 2)
	vfArbQueryBuffer(s, 2)
	s.config.Tags = map[string]string{"role": "x"}
	return s
}

func vfC09Bytes(name string) []byte {
	switch vfChoice(name+".shape", 3) {
	case 0:
		return nil
	case 1:
		return []byte{}
	}
	return vfBytes(name, 2)
}

func vfC09Filters() [][]byte {
	var fs [][]byte
	// optionally a filter that selects this node first, so that the arbitrary one after it is evaluated too
	if vfBool("passingFirst") {
		b, _ := encodeFilter(filterNodeType, filterNode{"self"})
		fs = append(fs, b)
	}
	switch vfChoice("filter", 6) {
	case 0:
		fs = append(fs, []byte{}) // a filter of length zero
	case 1:
		fs = append(fs, nil)
	case 2:
		fs = append(fs, []byte{vfU8("fkind")}) // only a kind byte
	case 3:
		b, _ := encodeFilter(filterNodeType, filterNode{vfC09Names[vfChoice("fnode", 4)]})
		fs = append(fs, b)
	case 4:
		b, _ := encodeFilter(filterTagType, filterTag{Tag: "role", Expr: string(vfFixedBytes("expr", 1))})
		fs = append(fs, b)
	case 5: // no further filter
	}
	return fs
}

// vfC09Min: a node with one other member of symbolic status and itself.
func vfC09Min() *Serf {
	s := vfNewSerf("self", 2)
	vfMembers(s, 1)
	s.members["self"] = &memberState{Member: Member{Name: "self", Status: StatusAlive, ProtocolMax: 5, ProtocolCur: 5}}
	s.config.Tags = map[string]string{"role": "x"}
	return s
}

// VfC09_Intent: join and leave intents (leave with and without prune).
//
//vf:unwind 24
//vf:paths quick=800000 thorough=8000000
//vf:bound inputs join/leave(+prune) intent with any 64-bit time for a known member of symbolic status, the local node, an unknown node or the empty name; a buffered intent may exist
//vf:stub codec -> identity on tokens
func VfC09_Intent() {
	s := vfC09Min()
	vfArbIntents(s, []string{"zz"})
	d := &delegate{serf: s}
	lt := LamportTime(vfU64("lt"))
	name := vfC09Names[vfChoice("node", 4)]
	var buf []byte
	if vfBool("isLeave") {
		buf, _ = encodeMessage(messageLeaveType, &messageLeave{LTime: lt, Node: name, Prune: vfBool("prune")}, false)
	} else {
		buf, _ = encodeMessage(messageJoinType, &messageJoin{LTime: lt, Node: name}, false)
	}
	d.NotifyMsg(buf)
	vfReach("C09.intent.survived")
	vfAssert("C09.intent.running", s.State() == SerfAlive)
}

// VfC09_Event: user events.
//
//vf:unwind 24
//vf:paths quick=800000 thorough=8000000
//vf:bound inputs user event with any 64-bit time, name and payload nil | empty | <=2 symbolic bytes; event buffer of length 2 with symbolic content
func VfC09_Event() {
	s := vfNewSerf("self", 2)
	vfArbEventBuffer(s, 2)
	d := &delegate{serf: s}
	buf, _ := encodeMessage(messageUserEventType, &messageUserEvent{LTime: LamportTime(vfU64("lt")), Name: string(vfC09Bytes("evname")), Payload: vfC09Bytes("evpayload"), CC: vfBool("cc")}, false)
	d.NotifyMsg(buf)
	vfReach("C09.event.survived")
	vfAssert("C09.event.running", s.State() == SerfAlive)
}

// VfC09_Query: queries with arbitrary filters, flags, addresses and payloads.
//
//vf:unwind 24
//vf:paths quick=800000 thorough=8000000
//vf:bound inputs query with any 64-bit time, an optional selecting filter followed by one arbitrary filter (zero-length | nil | kind byte only | node list | tag filter with symbolic pattern | none), payload nil | empty | <=2 bytes, source address of 0/4/16/3 bytes, symbolic flags, id and port, timeout from {0, 1s, negative, huge}, relay factor 0/1/5, internal or user query name; query clock and cut-off symbolic; 1 other member
//vf:stub codec -> identity on tokens; regexp on a symbolic pattern -> uninterpreted outcome; transport recorded
func VfC09_Query() {
	s := vfNewSerf("self", 2)
	s.members["m0"] = &memberState{Member: Member{Name: "m0", Status: StatusAlive, ProtocolMax: 5, ProtocolCur: 5, Addr: net.IP{10, 0, 0, 2}, Port: 7946}}
	s.members["self"] = &memberState{Member: Member{Name: "self", Status: StatusAlive, ProtocolMax: 5, ProtocolCur: 5}}
	s.config.Tags = map[string]string{"role": "x"}
	s.queryClock.counter.Store(vfU64("qclock"))
	s.queryMinTime = LamportTime(vfU64("qmin"))
	d := &delegate{serf: s}
	var addr []byte
	switch vfChoice("addrlen", 4) {
	case 1:
		addr = []byte{10, 0, 0, 9}
	case 2:
		addr = make([]byte, 16)
	case 3:
		addr = []byte{1, 2, 3}
	}
	qname := "q"
	if vfBool("internalName") {
		qname = InternalQueryPrefix + "install-key"
	}
	buf, _ := encodeMessage(messageQueryType, &messageQuery{LTime: LamportTime(vfU64("lt")), ID: vfU32("id"), Addr: addr, Port: vfU16("port"),
		SourceNode: "origin", Filters: vfC09Filters(), Flags: vfU32("flags"), RelayFactor: [...]uint8{0, 1, 5}[vfChoice("relay", 3)],
		Timeout: [...]time.Duration{0, time.Second, -1, 1<<62}[vfChoice("timeout", 4)], Name: qname, Payload: vfBytes("qpayload", 1)}, false)
	d.NotifyMsg(buf)
	vfReach("C09.query.survived")
	vfAssert("C09.query.running", s.State() == SerfAlive)
}

// VfC09_Response: query responses against an open (or closed, or unknown) query.
//
//vf:unwind 24
//vf:paths quick=800000 thorough=8000000
//vf:bound inputs response with symbolic time (hitting the open query or not), id, flags, sender from 4 names, payload nil | empty | <=2 bytes; the open query requested acks or not and is closed or not
func VfC09_Response() {
	s := vfNewSerf("self", 2)
	d := &delegate{serf: s}
	qr := newQueryResponse(2, &messageQuery{LTime: 7, ID: 9, Flags: queryFlagAck * uint32(vfB2I(vfBool("openWantsAck"))), Timeout: time.Hour})
	s.queryResponse[7] = qr
	if vfBool("openClosed") {
		qr.Close()
	}
	rlt := LamportTime(vfU64("lt"))
	if vfBool("hitsOpen") {
		rlt = 7
	}
	rid := vfU32("rid")
	if vfBool("idMatches") {
		rid = 9
	}
	buf, _ := encodeMessage(messageQueryResponseType, &messageQueryResponse{LTime: rlt, ID: rid, From: vfC09Names[vfChoice("node", 4)], Flags: vfU32("rflags"), Payload: vfC09Bytes("rpayload")}, false)
	d.NotifyMsg(buf)
	d.NotifyMsg(buf) // and its duplicate
	vfReach("C09.response.survived")
	vfAssert("C09.response.running", s.State() == SerfAlive)
}

// VfC09_Other: relay envelopes, state-sync payloads sent as gossip, unknown
// kinds, empty buffers and bodies that do not decode.
//
//vf:unwind 24
//vf:paths quick=800000 thorough=8000000
//vf:bound inputs relay envelope with a valid or undecodable header; push/pull kind as gossip; unknown kind byte; empty buffer; every kind byte followed by a body of another type
//vf:nonative
func VfC09_Other() {
	s := vfC09Min()
	d := &delegate{serf: s}
	var buf []byte
	switch vfChoice("kind", 5) {
	case 0:
		buf = []byte{byte(messageRelayType), 1, 2, 3}
		if vfBool("relayHeaderOk") {
			vfQueueDecode(&relayHeader{DestAddr: net.UDPAddr{IP: net.IP{10, 0, 0, 9}, Port: 1}, DestName: vfC09Names[vfChoice("node", 4)]})
		}
	case 1:
		buf, _ = encodeMessage(messagePushPullType, &messagePushPull{}, false)
	case 2:
		buf = []byte{vfU8("unknownKind")}
	case 3:
		buf = nil
	case 4:
		buf, _ = encodeMessage(messageLeaveType, &messageUserEvent{Name: "x"}, false)
		buf[0] = vfU8("kindForBadBody")
	}
	d.NotifyMsg(buf)
	vfReach("C09.other.survived")
	vfAssert("C09.other.running", s.State() == SerfAlive)
}

// VfC09_Merge: delegate.MergeRemoteState with an arbitrary state-sync payload.
// The three parts of a payload (left members, status times, events) are
// processed one after the other by disjoint code; each part is made arbitrary
// in turn (the other two empty), which keeps the path count additive.
//
//vf:unwind 24
//vf:paths quick=800000 thorough=8000000
//vf:bound inputs buffer empty | wrong kind byte | undecodable | payload with ONE arbitrary part: (a) <=2 left members naming listed and unlisted nodes (duplicates, self, nil status map), (b) status times for <=2 names incl. self, (c) event list with nil entries / empty event lists / an event with nil | empty | short name and payload; symbolic clocks (any 64-bit value)
//vf:outside payloads in which two parts are non-trivial at once (the parts do not share code)
func VfC09_Merge() {
	s := vfC09Min()
	vfArbEventBuffer(s, 2)
	d := &delegate{serf: s}
	var buf []byte
	switch vfChoice("kind", 6) {
	case 0:
		buf = nil
	case 1:
		buf, _ = encodeMessage(messageJoinType, &messageJoin{}, false)
	case 2:
		buf, _ = encodeMessage(messagePushPullType, &messageJoin{}, false)
	case 3: // left members
		pp := &messagePushPull{LTime: LamportTime(vfU64("ppclock"))}
		if vfBool("hasTimes") {
			pp.StatusLTimes = map[string]LamportTime{"m0": LamportTime(vfU64("ppst"))}
		}
		nl := 1 + vfChoice("nleft", 2)
		for i := 0; i < nl; i++ {
			pp.LeftMembers = append(pp.LeftMembers, vfC09Names[vfChoice("left", 4)])
		}
		buf, _ = encodeMessage(messagePushPullType, pp, false)
	case 4: // status times
		pp := &messagePushPull{LTime: LamportTime(vfU64("ppclock")), StatusLTimes: map[string]LamportTime{}}
		for _, n := range []string{"m0", "self", "zz"} {
			if vfBool("ppHas") {
				pp.StatusLTimes[n] = LamportTime(vfU64("ppst"))
			}
		}
		buf, _ = encodeMessage(messagePushPullType, pp, false)
	case 5: // events
		pp := &messagePushPull{EventLTime: LamportTime(vfU64("ppeclock")), QueryLTime: LamportTime(vfU64("ppqclock"))}
		switch vfChoice("events", 3) {
		case 0:
			pp.Events = []*userEvents{nil, nil}
		case 1:
			pp.Events = []*userEvents{{LTime: LamportTime(vfU64("ppet"))}}
		case 2:
			pp.Events = []*userEvents{nil, {LTime: LamportTime(vfU64("ppet")), Events: []userEvent{{Name: vfString("ppen", 1), Payload: vfC09Bytes("ppep")}}}}
		}
		buf, _ = encodeMessage(messagePushPullType, pp, false)
	}
	d.MergeRemoteState(buf, vfBool("isJoin"))
	vfReach("C09.merge.survived")
	vfAssert("C09.merge.running", s.State() == SerfAlive)
}

// VfC09_Internal: the internal query handlers (conflict, key install/use/
// remove/list, ping, unknown) with arbitrary payloads, with and without a keyring.
//
//vf:unwind 40
//vf:paths quick=800000 thorough=8000000
//vf:bound inputs each internal query name (+ an unknown one); payload nil | empty | 1-2 symbolic bytes | well-formed key request with a key of 0/16/17 symbolic bytes; keyring absent or holding 1-2 keys; keyring file configured or not
//vf:stub codec -> identity on tokens or error; json/os -> abstract file; base64 -> identity
func VfC09_Internal() {
	s := vfNewSerf("self", 2)
	s.members["m0"] = &memberState{Member: Member{Name: "m0", Status: StatusAlive, Addr: net.IP{10, 0, 0, 2}, Port: 7946}}
	if vfBool("hasKeyring") {
		keys := [][]byte{vfFixedBytes("k0", 16)}
		if vfBool("twoKeys") {
			keys = append(keys, vfFixedBytes("k1", 16))
		}
		s.config.MemberlistConfig.Keyring, _ = memberlist.NewKeyring(keys, keys[0])
	}
	if vfBool("hasKeyringFile") {
		s.config.KeyringFile = "keyring.json"
	}
	names := [...]string{pingQuery, conflictQuery, installKeyQuery, useKeyQuery, removeKeyQuery, listKeysQuery, "no-such-query"}
	name := names[vfChoice("query", len(names))]
	var payload []byte
	switch vfChoice("payload", 4) {
	case 0:
		payload = nil
	case 1:
		payload = []byte{}
	case 2:
		payload = vfBytes("junk", 2)
	case 3:
		var key []byte
		switch vfChoice("keylen", 3) {
		case 1:
			key = vfFixedBytes("reqkey", 16)
		case 2:
			key = vfFixedBytes("reqkey", 17)
		}
		payload, _ = encodeMessage(messageKeyRequestType, keyRequest{Key: key}, false)
	}
	q := &Query{serf: s, id: 7, LTime: 5, Name: internalQueryName(name), Payload: payload,
		addr: []byte{10, 0, 0, 9}, port: 1, sourceNode: "origin", deadline: time.Now().Add(time.Hour)}
	sq := &serfQueries{serf: s}
	sq.handleQuery(q)
	vfReach("C09.internal.survived")
	vfAssert("C09.internal.running", s.State() == SerfAlive)
}

var vfC09Accept bool

func vfC09StubUpdate(c *coordinate.Client, node string, other *coordinate.Coordinate, rtt time.Duration) (*coordinate.Coordinate, error) {
	// the real Update reads the peer coordinate first (checkCoordinate): its crash-freedom (C20 harnesses) is for a
	// non-nil peer, so the caller has to hand one over
	_ = len(other.Vec)
	if !vfC09Accept {
		return nil, errors.New("rejected")
	}
	return c.GetCoordinate(), nil
}

// VfC09_Ping: probe acknowledgement payloads. coordinate.Client.Update is
// replaced by "accepts or rejects": that Update itself neither panics nor leaves
// an invalid coordinate for ANY peer coordinate and round-trip time is shown by
// the C20 harnesses in package coordinate (which carry the same implicit
// "does not crash" assertion).
//
//vf:unwind 24
//vf:override (*github.com/hashicorp/serf/coordinate.Client).Update = github.com/hashicorp/serf/serf.vfC09StubUpdate
//vf:bound inputs payload nil | empty | wrong version | undecodable | msgpack nil | coordinate with a vector of 0/1/8/9 components; sender from 4 names (empty included); round-trip time any int64
//vf:stub coordinate.Client.Update -> arbitrary verdict (crash-freedom of Update: VfC20_* in package coordinate)
//vf:nonative
func VfC09_Ping() {
	s := vfNewSerf("self", 2)
	s.config.DisableCoordinates = false
	s.coordClient, _ = coordinate.NewClient(coordinate.DefaultConfig())
	s.coordCache = map[string]*coordinate.Coordinate{}
	vfC09Accept = vfBool("accept")
	var payload []byte
	switch vfChoice("payload", 6) {
	case 5:
		// version byte + msgpack nil: decodes without an error
		payload = []byte{PingVersion, 0xc0}
		vfQueueDecodeNil()
	case 0:
		payload = nil
	case 1:
		payload = []byte{}
	case 2:
		payload = []byte{vfU8("version")}
	case 3:
		payload = []byte{PingVersion, 9}
		vfQueueDecode(&messageJoin{})
	case 4:
		payload = []byte{PingVersion, 9}
		n := [...]int{0, 1, 8, 9}[vfChoice("veclen", 4)]
		vfQueueDecode(&coordinate.Coordinate{Vec: make([]float64, n), Height: 0.5})
	}
	p := &pingDelegate{serf: s}
	p.NotifyPingComplete(&memberlist.Node{Name: vfC09Names[vfChoice("node", 4)]}, time.Duration(vfI64("rtt")), payload)
	vfReach("C09.ping.survived")
	vfAssert("C09.ping.running", s.State() == SerfAlive)
}

// VfC09_Meta: member metadata and memberlist notifications with arbitrary
// node descriptions (merge/alive delegates, join/update/leave/conflict).
//
//vf:unwind 24
//vf:paths quick=800000 thorough=8000000
//vf:bound inputs node name from {known, self, unknown, empty, 1 symbolic byte}; address of 0/3/4/16 bytes; meta nil | empty | 1-2 symbolic bytes | tag magic byte + undecodable | tag magic byte + a tag map; name validation on or off; symbolic protocol bytes
//vf:stub codec -> queue or error; regexp -> exact NFA encoding over the symbolic name
//vf:nonative
func VfC09_Meta() {
	s := vfNewSerf("self", 2)
	st := vfStatus("status")
	m0 := &memberState{Member: Member{Name: "m0", Status: st}}
	s.members["m0"] = m0
	if st == StatusFailed {
		s.failedMembers = append(s.failedMembers, m0)
	} else if st == StatusLeft {
		s.leftMembers = append(s.leftMembers, m0)
	}
	s.members["self"] = &memberState{Member: Member{Name: "self", Status: StatusAlive}}
	s.config.ValidateNodeNames = vfBool("validateNames")
	s.config.EnableNameConflictResolution = vfBool("resolve")
	name := ""
	switch k := vfChoice("node", 5); k {
	case 4:
		name = string(vfFixedBytes("name", 1))
	default:
		name = vfC09Names[k]
	}
	var addr []byte
	switch vfChoice("addrlen", 4) {
	case 1:
		addr = []byte{1, 2, 3}
	case 2:
		addr = []byte{10, 0, 0, 9}
	case 3:
		addr = make([]byte, 16)
	}
	var meta []byte
	switch vfChoice("meta", 5) {
	case 1:
		meta = []byte{}
	case 2:
		meta = vfBytes("metabytes", 2)
	case 3:
		meta = []byte{tagMagicByte, 1}
	case 4:
		meta = []byte{tagMagicByte, 1}
		vfQueueDecode(&map[string]string{"role": "y"})
	}
	n := &memberlist.Node{Name: name, Addr: addr, Port: vfU16("port"), Meta: meta, PMin: vfU8("pmin"), PMax: vfU8("pmax"), PCur: vfU8("pcur"),
		DMin: vfU8("dmin"), DMax: vfU8("dmax"), DCur: vfU8("dcur")}
	if vfBool("stateLeft") {
		n.State = memberlist.StateLeft
	}
	switch vfChoice("entry", 7) {
	case 0:
		s.handleNodeJoin(n)
	case 1:
		s.handleNodeUpdate(n)
	case 2:
		s.handleNodeLeave(n)
	case 3:
		s.handleNodeConflict(n, &memberlist.Node{Name: name, Addr: []byte{10, 0, 0, 8}, Port: 2})
	case 4:
		s.config.Merge = vfMergeOK{}
		(&mergeDelegate{serf: s}).NotifyMerge([]*memberlist.Node{n}) //nolint:errcheck
	case 5:
		s.config.Merge = vfMergeOK{}
		(&mergeDelegate{serf: s}).NotifyAlive(n) //nolint:errcheck
	case 6:
		switch vfChoice("notify", 3) {
		case 0:
			(&eventDelegate{serf: s}).NotifyJoin(n)
		case 1:
			(&eventDelegate{serf: s}).NotifyUpdate(n)
		case 2:
			(&eventDelegate{serf: s}).NotifyLeave(n)
		}
	}
	vfReach("C09.meta.survived")
	vfAssert("C09.meta.running", s.State() == SerfAlive)
}

type vfMergeOK struct{}

func (vfMergeOK) NotifyMerge([]*Member) error { return nil }
