//go:build verif

package coordinate

import (
	"math"
	"time"
)

// C20: the network coordinate stays valid whatever peers report.
//
// Inductive step over Client.Update: the local state is arbitrary but valid
// (finite coordinate of the configured dimension, height >= minimum, error
// within [0, max], finite adjustment window); the peer coordinate and the
// round-trip time are completely arbitrary (NaN, infinities, huge values,
// wrong dimension). Every arithmetic operation (+ - * / sqrt pow) is replaced
// by an ARBITRARY result (any double, NaN and infinities included): whatever is
// proved this way holds for the real operations a fortiori. Comparisons, max,
// abs, the NaN/Inf tests, the clamps and all the control flow are exact. This is
// enough because validity after an update rests on the clamps and on the final
// IsValid reset, not on what the arithmetic computes.

func vfF(x float64) bool { return vfAnd(!math.IsNaN(x), !math.IsInf(x, 0)) }

type vfC20Snap struct {
	vec        []float64
	err, adj   float64
	height     float64
	samples    []float64
	index      uint
	filter     []float64
	hasFilter  bool
	resets     int
}

func vfC20Client(d int) *Client {
	cfg := DefaultConfig()
	cfg.Dimensionality = uint(d)
	cfg.AdjustmentWindowSize = 2
	cfg.LatencyFilterSize = 2
	c, _ := NewClient(cfg)
	for i := range c.coord.Vec {
		c.coord.Vec[i] = vfF64("vec")
		vfAssume(vfF(c.coord.Vec[i]))
	}
	c.coord.Height = vfF64("height")
	vfAssume(vfAnd(vfF(c.coord.Height), c.coord.Height >= cfg.HeightMin))
	c.coord.Error = vfF64("lerror")
	vfAssume(vfAnd(c.coord.Error >= 0, c.coord.Error <= cfg.VivaldiErrorMax))
	c.coord.Adjustment = vfF64("adjustment")
	vfAssume(vfF(c.coord.Adjustment))
	for i := range c.adjustmentSamples {
		c.adjustmentSamples[i] = vfF64("sample")
		vfAssume(vfF(c.adjustmentSamples[i]))
	}
	c.adjustmentIndex = uint(vfChoice("index", 2))
	if vfBool("hasFilter") {
		s := vfF64("filtered")
		vfAssume(vfAnd(s >= 0, s <= 10))
		c.latencyFilterSamples["peer"] = []float64{s}
	}
	return c
}

func vfC20Peer(d int) *Coordinate {
	n := d
	switch vfChoice("peerdim", 3) {
	case 1:
		n = d + 1
	case 2:
		n = 0
	}
	p := &Coordinate{Vec: make([]float64, n), Error: vfF64("perror"), Adjustment: vfF64("padjustment"), Height: vfF64("pheight")}
	for i := range p.Vec {
		p.Vec[i] = vfF64("pvec")
	}
	return p
}

func vfC20Take(c *Client) vfC20Snap {
	s := vfC20Snap{vec: append([]float64{}, c.coord.Vec...), err: c.coord.Error, adj: c.coord.Adjustment, height: c.coord.Height,
		samples: append([]float64{}, c.adjustmentSamples...), index: c.adjustmentIndex, resets: c.stats.Resets}
	s.filter, s.hasFilter = c.latencyFilterSamples["peer"]
	s.filter = append([]float64{}, s.filter...)
	return s
}

// vfSameF: the same double (NaN payloads are not distinguished)
func vfSameF(x, y float64) bool { return vfOr(x == y, vfAnd(math.IsNaN(x), math.IsNaN(y))) }

func vfC20Unchanged(c *Client, s vfC20Snap) bool {
	ok := len(c.coord.Vec) == len(s.vec)
	for i := range s.vec {
		if i < len(c.coord.Vec) {
			ok = vfAnd(ok, vfSameF(c.coord.Vec[i], s.vec[i]))
		}
	}
	ok = vfAnd(ok, vfAnd(vfSameF(c.coord.Error, s.err), vfAnd(vfSameF(c.coord.Adjustment, s.adj), vfSameF(c.coord.Height, s.height))))
	for i := range s.samples {
		ok = vfAnd(ok, vfSameF(c.adjustmentSamples[i], s.samples[i]))
	}
	ok = vfAnd(ok, c.adjustmentIndex == s.index && c.stats.Resets == s.resets)
	f, has := c.latencyFilterSamples["peer"]
	ok = vfAnd(ok, has == s.hasFilter && len(f) == len(s.filter))
	for i := range s.filter {
		if i < len(f) {
			ok = vfAnd(ok, vfSameF(f[i], s.filter[i]))
		}
	}
	return ok
}

// vfIsValidNF is IsValid written without short-circuit branches. VfC20_IsValid
// proves it equivalent to the real IsValid for every coordinate; VfC20_Update
// then uses it in place of the real one (assume-guarantee), which keeps the
// number of explored paths small.
func vfIsValidNF(c *Coordinate) bool {
	ok := true
	for i := range c.Vec {
		ok = vfAnd(ok, vfF(c.Vec[i]))
	}
	return vfAnd(ok, vfAnd(vfF(c.Error), vfAnd(vfF(c.Adjustment), vfF(c.Height))))
}

// VfC20_IsValid: the real IsValid is true exactly for coordinates whose every
// component (vector of length 0..3, error, adjustment, height) is finite.
//
//vf:unwind 16
//vf:bound values vector of 0..3 components; every double in every field
func VfC20_IsValid() {
	n := vfChoice("len", 4)
	c := &Coordinate{Vec: make([]float64, n), Error: vfF64("e"), Adjustment: vfF64("a"), Height: vfF64("h")}
	for i := range c.Vec {
		c.Vec[i] = vfF64("v")
	}
	vfReach("C20.isvalid.done")
	vfAssert("C20.isvalid.equiv", c.IsValid() == vfIsValidNF(c))
}

// ---- compositional proof of "valid after an accepted update" -------------------
//
// Update runs three stages (updateVivaldi, updateAdjustment, updateGravity) and
// then resets the coordinate if it is not valid. Stage contract P:
//   dimension kept; (height >= minimum or height is NaN); (error <= maximum or error is NaN)
// Each stage is executed for real from an ARBITRARY client state satisfying P
// (all other fields arbitrary doubles) and must re-establish P
// (VfC20_Stage*). The frame (VfC20_Update) executes the real Update with the
// stages replaced by "any state satisfying P" and proves rejection, the final
// reset and the returned copy. P plus finiteness (the final IsValid) gives
// height >= minimum and error <= maximum.

func vfP(c *Client, d int) bool {
	co := c.coord
	return vfAnd(len(co.Vec) == d, vfAnd(vfOr(co.Height >= c.config.HeightMin, math.IsNaN(co.Height)), vfOr(co.Error <= c.config.VivaldiErrorMax, math.IsNaN(co.Error))))
}

// vfHavocP overwrites the client's coordinate with arbitrary doubles subject to P.
func vfHavocP(c *Client) {
	d := len(c.coord.Vec)
	nc := &Coordinate{Vec: make([]float64, d), Error: vfF64("h.error"), Adjustment: vfF64("h.adjustment"), Height: vfF64("h.height")}
	for i := range nc.Vec {
		nc.Vec[i] = vfF64("h.vec")
	}
	c.coord = nc
	vfAssume(vfP(c, d))
}

func vfStubStage(c *Client, other *Coordinate, rttSeconds float64) { vfHavocP(c) }

// vfPE: the error is not negative (or NaN, which the final IsValid check turns into a reset).
func vfPE(c *Client) bool { return vfOr(c.coord.Error >= 0, math.IsNaN(c.coord.Error)) }

// Stage stubs of the frame that also carry the error-sign contract:
// updateVivaldi keeps PE when the peer's error is not negative
// (VfC20_StageVivaldiError), the other two stages do not touch the error
// (C20.stage.adjustment.error / C20.stage.gravity.error).
func vfStubVivaldiPE(c *Client, other *Coordinate, rttSeconds float64) {
	pre := vfPE(c)
	vfHavocP(c)
	vfAssume(vfImplies(vfAnd(pre, other.Error >= 0), vfPE(c)))
}
func vfStubAdjustPE(c *Client, other *Coordinate, rttSeconds float64) {
	pre := vfPE(c)
	vfHavocP(c)
	vfAssume(vfImplies(pre, vfPE(c)))
}
func vfStubGravityPE(c *Client) {
	pre := vfPE(c)
	vfHavocP(c)
	vfAssume(vfImplies(pre, vfPE(c)))
}

var vfFilterCalls int

// vfStubFilter replaces latencyFilter in the frame: it may record the sample
// (state change allowed on the accept path only) and returns an arbitrary value.
func vfStubFilter(c *Client, node string, rttSeconds float64) float64 {
	vfFilterCalls++
	c.latencyFilterSamples[node] = append(c.latencyFilterSamples[node], rttSeconds)
	return vfF64("filtered.rtt")
}
func vfStubGravity(c *Client)                                       { vfHavocP(c) }

// vfC20ArbClient: a client whose coordinate holds arbitrary doubles subject to P.
func vfC20ArbClient(d int) *Client {
	cfg := DefaultConfig()
	cfg.Dimensionality = uint(d)
	cfg.AdjustmentWindowSize = 2
	cfg.LatencyFilterSize = 2
	c, _ := NewClient(cfg)
	vfHavocP(c)
	for i := range c.adjustmentSamples {
		c.adjustmentSamples[i] = vfF64("sample")
	}
	c.adjustmentIndex = uint(vfChoice("index", 2))
	return c
}

func vfC20ValidPeer(d int) *Coordinate {
	p := &Coordinate{Vec: make([]float64, d), Error: vfF64("perror"), Adjustment: vfF64("padjustment"), Height: vfF64("pheight")}
	for i := range p.Vec {
		p.Vec[i] = vfF64("pvec")
		vfAssume(vfF(p.Vec[i]))
	}
	vfAssume(vfAnd(vfF(p.Error), vfAnd(vfF(p.Adjustment), vfF(p.Height))))
	return p
}

// VfC20_StageVivaldi: updateVivaldi re-establishes P (the error clamp and the
// height clamp in ApplyForce), for any rtt the latency filter can hand it.
//
//vf:unwind 16
//vf:fpabstract add sub mul div sqrt pow
//vf:paths quick=400000 thorough=4000000
//vf:bound state dimension quick=1 thorough=1..2; local coordinate: arbitrary doubles subject to P; peer: arbitrary finite coordinate of the same dimension; filtered rtt: any double
//vf:nonative
func VfC20_StageVivaldi() {
	d := 1
	if vfTier() == 1 {
		d = 1 + vfChoice("dim", 2)
	}
	c := vfC20ArbClient(d)
	c.updateVivaldi(vfC20ValidPeer(d), vfF64("rtt"))
	vfReach("C20.stage.vivaldi.done")
	vfAssert("C20.stage.vivaldi.P", vfP(c, d))
}

// VfC20_StageVivaldiError: updateVivaldi keeps the error at or above zero (or
// NaN) when the peer's error is not negative. The error update
//   e' = ce*w*wrongness + e*(1 - ce*w),  w = e / max(e + peerError, 1e-6)
// is executed with exact IEEE-754 semantics (the instructions of updateVivaldi
// itself). Its two callees are cut: DistanceTo returns an arbitrary duration
// and ApplyForce an arbitrary coordinate with the same error
// (VfC20_ApplyForceError proves that ApplyForce copies the error).
//
//vf:unwind 16
//vf:fpabstract add sub mul div sqrt pow
//vf:fpexactin updateVivaldi
//vf:timeout 300s
//vf:fpsolver cvc5
//vf:override (*github.com/hashicorp/serf/coordinate.Coordinate).DistanceTo = github.com/hashicorp/serf/coordinate.vfStubDistanceTo
//vf:override (*github.com/hashicorp/serf/coordinate.Coordinate).ApplyForce = github.com/hashicorp/serf/coordinate.vfStubApplyForce
//vf:bound state dimension 1; local error: any double in [0, max] or NaN; peer error: any finite double >= 0; rtt: any double; distance to the peer: any double
//vf:stub DistanceTo -> arbitrary duration; ApplyForce -> arbitrary coordinate carrying the same error (proved by VfC20_ApplyForceError)
//vf:nonative
func VfC20_StageVivaldiError() {
	d := 1
	c := vfC20ArbClient(d)
	vfAssume(vfPE(c))
	peer := vfC20ValidPeer(d)
	vfAssume(peer.Error >= 0)
	c.updateVivaldi(peer, vfF64("rtt"))
	vfReach("C20.stage.vivaldi.error.done")
	vfAssert("C20.stage.vivaldi.error.nonneg", vfPE(c))
}

func vfStubDistanceTo(c *Coordinate, other *Coordinate) time.Duration { return time.Duration(vfI64("dist")) }

func vfStubApplyForce(c *Coordinate, config *Config, force float64, other *Coordinate) *Coordinate {
	r := &Coordinate{Vec: make([]float64, len(c.Vec)), Error: c.Error, Adjustment: vfF64("af.adjustment"), Height: vfF64("af.height")}
	for i := range r.Vec {
		r.Vec[i] = vfF64("af.vec")
	}
	return r
}

// VfC20_ApplyForceError: the real ApplyForce returns a coordinate with the error
// of its receiver (bit for bit), for arbitrary doubles everywhere.
//
//vf:unwind 16
//vf:fpabstract add sub mul div sqrt pow
//vf:nonative
func VfC20_ApplyForceError() {
	d := 1
	if vfTier() == 1 {
		d = 1 + vfChoice("dim", 2)
	}
	c := vfC20ArbClient(d)
	r := c.coord.ApplyForce(c.config, vfF64("force"), vfC20ValidPeer(d))
	vfReach("C20.applyforce.done")
	vfAssert("C20.applyforce.error.kept", r != nil && r != c.coord && vfSameF(r.Error, c.coord.Error))
}

// VfC20_StageAdjustment: updateAdjustment keeps P (it touches neither height nor error).
//
//vf:unwind 16
//vf:fpabstract add sub mul div sqrt pow
//vf:nonative
func VfC20_StageAdjustment() {
	d := 1
	if vfTier() == 1 {
		d = 1 + vfChoice("dim", 2)
	}
	c := vfC20ArbClient(d)
	e0 := c.coord.Error
	c.updateAdjustment(vfC20ValidPeer(d), vfF64("rtt"))
	vfReach("C20.stage.adjustment.done")
	vfAssert("C20.stage.adjustment.error", vfSameF(e0, c.coord.Error))
	vfAssert("C20.stage.adjustment.P", vfP(c, d))
	vfAssert("C20.stage.adjustment.index", c.adjustmentIndex < 2)
}

// VfC20_StageGravity: updateGravity keeps P.
//
//vf:unwind 16
//vf:fpabstract add sub mul div sqrt pow
//vf:nonative
func VfC20_StageGravity() {
	d := 1
	if vfTier() == 1 {
		d = 1 + vfChoice("dim", 2)
	}
	c := vfC20ArbClient(d)
	e0 := c.coord.Error
	c.updateGravity()
	vfReach("C20.stage.gravity.done")
	vfAssert("C20.stage.gravity.error", vfSameF(e0, c.coord.Error))
	vfAssert("C20.stage.gravity.P", vfP(c, d))
}

// VfC20_Update: the frame: rejection, the final reset and the returned copy,
// with the three stages replaced by "any state satisfying P".
//
//vf:unwind 16
//vf:paths quick=400000 thorough=4000000
//vf:fpabstract add sub mul div sqrt pow
//vf:override (*github.com/hashicorp/serf/coordinate.Client).updateVivaldi = github.com/hashicorp/serf/coordinate.vfStubVivaldiPE
//vf:override (*github.com/hashicorp/serf/coordinate.Client).updateAdjustment = github.com/hashicorp/serf/coordinate.vfStubAdjustPE
//vf:override (*github.com/hashicorp/serf/coordinate.Client).updateGravity = github.com/hashicorp/serf/coordinate.vfStubGravityPE
//vf:override (*github.com/hashicorp/serf/coordinate.Coordinate).IsValid = github.com/hashicorp/serf/coordinate.vfIsValidNF
//vf:override (*github.com/hashicorp/serf/coordinate.Client).latencyFilter = github.com/hashicorp/serf/coordinate.vfStubFilter
//vf:bound state dimension quick=1 thorough=1..2; adjustment window 2 (any index), latency filter 2 with 0..1 earlier samples; peer: same / larger / zero dimension, every double (NaN, infinities) in every field; round-trip time: every int64 duration
//vf:stub the three update stages -> arbitrary state satisfying the stage contract P (each stage is proved to establish P by VfC20_Stage*); all float arithmetic -> arbitrary result
//vf:outside the default dimension 8 and window 20 (same code, longer loops)
//vf:nonative
func VfC20_Update() {
	d := 1
	if vfTier() == 1 {
		d = 1 + vfChoice("dim", 2)
	}
	c := vfC20Client(d)
	peer := vfC20Peer(d)
	rtt := time.Duration(vfI64("rtt"))
	before := vfC20Take(c)
	vfFilterCalls = 0
	peerValid := len(peer.Vec) == d
	for _, x := range peer.Vec {
		peerValid = vfAnd(peerValid, vfF(x))
	}
	peerValid = vfAnd(peerValid, vfAnd(vfF(peer.Error), vfAnd(vfF(peer.Adjustment), vfF(peer.Height))))
	rttOK := rtt >= 0 && rtt <= 10*time.Second
	got, err := c.Update("peer", peer, rtt)
	vfReach("C20.update.done")
	// rejected exactly when the peer coordinate is invalid/incompatible or the time is out of range
	vfAssert("C20.reject.iff", (err != nil) == !vfAnd(peerValid, rttOK))
	if err != nil {
		vfAssert("C20.reject.nothing.returned", got == nil)
		vfAssert("C20.reject.unchanged", vfC20Unchanged(c, before) && vfFilterCalls == 0)
		return
	}
	// accepted: the local coordinate is valid again (configured dimension, every
	// component finite, height >= minimum, error <= maximum)
	ok := len(c.coord.Vec) == d
	for _, x := range c.coord.Vec {
		ok = vfAnd(ok, vfF(x))
	}
	ok = vfAnd(ok, vfAnd(vfF(c.coord.Error), vfAnd(vfF(c.coord.Adjustment), vfF(c.coord.Height))))
	ok = vfAnd(ok, vfAnd(c.coord.Height >= c.config.HeightMin, c.coord.Error <= c.config.VivaldiErrorMax))
	vfAssert("C20.valid.after.accept", ok)
	// ... and the error stays at or above zero when the peer reported a non-negative error
	if peer.Error >= 0 {
		vfAssert("C20.error.nonneg", c.coord.Error >= 0)
	}
	// the returned coordinate is an independent copy of the local one
	same := got != nil && got != c.coord && len(got.Vec) == len(c.coord.Vec)
	if same {
		for i := range got.Vec {
			same = vfAnd(same, vfSameF(got.Vec[i], c.coord.Vec[i]))
		}
		same = vfAnd(same, vfAnd(vfSameF(got.Error, c.coord.Error), vfAnd(vfSameF(got.Adjustment, c.coord.Adjustment), vfSameF(got.Height, c.coord.Height))))
	}
	vfAssert("C20.returned.copy", same)
}

// VfC20_Filter: the latency filter (replaced by an arbitrary value in the frame)
// never panics, keeps at most LatencyFilterSize samples per node and returns one
// of the stored samples.
//
//vf:unwind 24
//vf:bound state filter size 2; 0..2 earlier samples and the new one: any double
func VfC20_Filter() {
	cfg := DefaultConfig()
	cfg.Dimensionality = 1
	cfg.LatencyFilterSize = 2
	c, _ := NewClient(cfg)
	n := vfChoice("prior", 3)
	for i := 0; i < n; i++ {
		c.latencyFilterSamples["peer"] = append(c.latencyFilterSamples["peer"], vfF64("old"))
	}
	x := vfF64("new")
	r := c.latencyFilter("peer", x)
	vfReach("C20.filter.done")
	got := c.latencyFilterSamples["peer"]
	vfAssert("C20.filter.bounded", len(got) >= 1 && len(got) <= 2)
	isOne := false
	for _, g := range got {
		isOne = vfOr(isOne, vfSameF(g, r))
	}
	vfAssert("C20.filter.returns.sample", isOne)
	vfAssert("C20.filter.newest.kept", vfSameF(got[len(got)-1], x))
}
