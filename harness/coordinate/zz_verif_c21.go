//go:build verif

package coordinate

import (
	"math"
	"time"
)

// C21: round-trip time estimates follow the documented formula.
//
// The Euclidean part is abstracted: magnitude() is replaced by one arbitrary
// non-negative finite value shared by both directions. This is justified by
// two IEEE facts about diff/magnitude: (a-b) = -(b-a) exactly (axiom, DESIGN 4)
// and (-x)*(-x) = x*x exactly (VfC21_LemmaSquare), so both directions sum the
// same squares in the same order. Everything after it (the additions of
// heights and adjustments, the positivity guard, the conversion to
// nanoseconds) is executed with exact IEEE-754 double semantics.

var vfMagVal float64

func vfStubMagnitude(vec []float64) float64 { return vfMagVal }

func vfFinite(x float64) bool { return vfAnd(!math.IsNaN(x), !math.IsInf(x, 0)) }

func vfC21Coord(tag string, d int) *Coordinate {
	c := &Coordinate{Vec: make([]float64, d), Height: vfF64(tag + ".height"), Adjustment: vfF64(tag + ".adj"), Error: 1.5}
	vfAssume(vfAnd(c.Height >= 0, c.Height <= 1e4))
	vfAssume(vfFinite(c.Adjustment))
	return c
}

func vfAbsDur(x time.Duration) time.Duration {
	if x < 0 {
		return -x
	}
	return x
}

// VfC21_Distance: non-negative, symmetric within a nanosecond, equal to the
// documented formula.
//
//vf:unwind 8
//vf:timeout 30s
//vf:override github.com/hashicorp/serf/coordinate.magnitude = github.com/hashicorp/serf/coordinate.vfStubMagnitude
//vf:bound values dimension 1..2 (components irrelevant once the Euclidean part is abstracted); heights in [0,1e4] s, adjustments: every finite double; Euclidean distance: any double in [0, 1e5] shared by both directions
//vf:stub magnitude -> shared symbolic value (justified by VfC21_LemmaSquare and the axiom a-b = -(b-a))
func VfC21_Distance() {
	d := 1 + vfChoice("dim", 2)
	a, b := vfC21Coord("a", d), vfC21Coord("b", d)
	vfMagVal = vfF64("mag")
	vfAssume(vfAnd(vfMagVal >= 0, vfMagVal <= 1e5))
	ab := a.DistanceTo(b)
	ba := b.DistanceTo(a)
	vfReach("C21.distance.done")
	vfAssert("C21.nonneg", vfAnd(ab >= 0, ba >= 0))
	// symmetry is stated where the result is representable: beyond ~9.2e9 s the
	// conversion to time.Duration overflows (C21.nonneg reports that separately)
	if vfAnd(vfAnd(a.Adjustment >= -4e9, a.Adjustment <= 4e9), vfAnd(b.Adjustment >= -4e9, b.Adjustment <= 4e9)) {
		vfAssert("C21.symmetric", vfAbsDur(ab-ba) <= 1)
	}
}

// VfC21_Formula: with adjustments of realistic size the result equals the
// documented formula (distance + both heights, + both adjustments when that
// stays positive), evaluated left to right, within a nanosecond.
//
//vf:unwind 8
//vf:timeout 30s
//vf:override github.com/hashicorp/serf/coordinate.magnitude = github.com/hashicorp/serf/coordinate.vfStubMagnitude
//vf:bound values as VfC21_Distance, adjustments in [-1e4,1e4] s
func VfC21_Formula() {
	a, b := vfC21Coord("a", 1), vfC21Coord("b", 1)
	vfAssume(vfAnd(a.Adjustment >= -1e4, a.Adjustment <= 1e4))
	vfAssume(vfAnd(b.Adjustment >= -1e4, b.Adjustment <= 1e4))
	vfMagVal = vfF64("mag")
	vfAssume(vfAnd(vfMagVal >= 0, vfMagVal <= 1e5))
	got := a.DistanceTo(b)
	// the documented formula; the two heights and the two adjustments are summed
	// pairwise (the order in which the real-valued formula is evaluated is not
	// documented; near the positivity threshold any other order may legitimately
	// land on the other side of it)
	raw := vfMagVal + (a.Height + b.Height)
	want := raw
	if adj := raw + (a.Adjustment + b.Adjustment); adj > 0 {
		want = adj
	}
	vfReach("C21.formula.done")
	vfAssert("C21.formula", vfAbsDur(got-time.Duration(want*1e9)) <= 1)
}

// VfC21_Dimension: coordinates of different dimensions are rejected with the
// dimensionality error before anything is computed.
//
//vf:unwind 8
func VfC21_Dimension() {
	a := &Coordinate{Vec: make([]float64, 1+vfChoice("da", 3))}
	b := &Coordinate{Vec: make([]float64, 1+vfChoice("db", 3))}
	panicked, isDim := false, false
	func() {
		defer func() {
			if r := recover(); r != nil {
				panicked = true
				_, isDim = r.(DimensionalityConflictError)
			}
		}()
		a.DistanceTo(b)
	}()
	vfReach("C21.dim.done")
	vfAssert("C21.dim.rejected.iff.differ", panicked == (len(a.Vec) != len(b.Vec)))
	vfAssert("C21.dim.error.kind", panicked == isDim)
}

// VfC21_LemmaSquare: (-x)*(-x) == x*x for every double (bit-exact unless NaN).
//
//vf:timeout 30s
func VfC21_LemmaSquare() {
	x := vfF64("x")
	p, q := x*x, (-x)*(-x)
	vfReach("C21.lemma.done")
	vfAssert("C21.lemma.square", p == q || (p != p && q != q))
}
