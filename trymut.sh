#!/bin/bash
# usage: trymut.sh <ID> <file-relative-to-repo> <python-replace-old> <python-replace-new> [tier] [extra gosmt flags]
# Applies a one-off textual mutation to a scratch worktree of /repo (never /repo itself), runs the check there, removes it.
ID="$1"; F="$2"; OLD="$3"; NEW="$4"; TIER="${5:-quick}"; shift 4; shift 2>/dev/null
W=/tmp/trymut-$ID-$$
git -C /repo worktree add -q --detach $W HEAD || exit 3
trap 'git -C /repo worktree remove --force $W >/dev/null 2>&1' EXIT
python3 - "$W/$F" "$OLD" "$NEW" <<'PY' || exit 3
import sys
p,old,new=sys.argv[1:4]
s=open(p).read()
if old not in s: print("pattern not found"); sys.exit(3)
open(p,'w').write(s.replace(old,new,1))
PY
(cd $W && GOFLAGS=-mod=mod GOPROXY=off go build ./... 2>&1 | head -5)
VERIF_REPLAYDIR=$W/.verif-replays VERIF_REPO=$W /verif/check "$ID" "$TIER" -noevidence "$@" 2>&1 | grep -E "VIOLATION|OK property|INCONCLUSIVE|violation:" | cut -c1-250 | head -6
