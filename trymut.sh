#!/bin/bash
# usage: trymut.sh <ID> <file-relative-to-repo> <python-replace-old> <python-replace-new> [tier] -- apply a one-off textual mutation to /repo, run the check, undo.
ID="$1"; F="$2"; OLD="$3"; NEW="$4"; TIER="${5:-quick}"
python3 - "$F" "$OLD" "$NEW" <<'PY' || exit 3
import sys
f,old,new=sys.argv[1:4]
p='/repo/'+f
s=open(p).read()
if old not in s: print("pattern not found"); sys.exit(3)
open(p,'w').write(s.replace(old,new,1))
PY
(cd /repo && go build ./... 2>&1 | head -5)
/verif/check "$ID" "$TIER" -noevidence 2>&1 | grep -E "VIOLATION|OK property|INCONCLUSIVE|violation:" | cut -c1-250 | head -6
git -C /repo checkout -- .
