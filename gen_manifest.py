#!/usr/bin/env python3
# Regenerates MANIFEST.json from props.conf + manifest_notes.json (keeps the manifest valid at all times).
import json
props=[json.loads(l) for l in open('/verif/properties.jsonl')]
notes=json.load(open('/verif/manifest_notes.json'))
claimed={}
for l in open('/verif/props.conf'):
    if l.strip():
        i,p=l.split()[:2]; claimed[i]=p
m={"version":1,
 "setup_cmd":"/verif/setup.sh",
 "hooks":{"guard":"verif","enable":"harness files carry //go:build verif and are injected by overlay (go/packages Overlay for the encoder, go test -tags verif -overlay for native replay); no hook commits in /repo","baseline_off_cmd":"cd /repo && go test -vet=off -count=1 -timeout 25m ./...","source_commits":[],"add_only":True},
 "engines":[{"name":"gosmt","path":"/verif/engine","serves_properties":sorted(claimed),"kind_free_text":"bounded symbolic executor for go/ssa written for this task: real functions of /repo are executed symbolically from SSA rebuilt on every run, assertions and path feasibility are discharged by z3 (SMT-LIB2 over pipes), counterexamples are replayed against the natively compiled code"}],
 "checks":[], "not_applicable":[],
 "notes":"Every check is ./check <ID> <tier>; exit 0 held / 1 VIOLATION (reproduced) / 2 inconclusive. Known genuine findings are listed in known_findings.json and printed as KNOWN-FINDING lines."}
for p in props:
    i=p['id']
    if i in claimed:
        n=notes.get(i,{})
        m["checks"].append({"property_id":i,"quick_cmd":"./check %s quick"%i,"thorough_cmd":"./check %s thorough"%i,
          "evidence_file":"/verif/evidence/%s.json"%i,"replay_cmd_template":"cat {path}  # vector; re-run: ./check %s quick"%i,"engine":"gosmt",
          "level_claimed":{"category":"model_checking","text":n.get("text","Bounded symbolic model checking of the real code: every assertion is decided by the SMT solver for all values of the symbolic inputs within the stated bounds."),"design_ref":"DESIGN.md section 6 "+i},
          "level_note":n.get("note","Trusted: go/ssa construction, engine instruction semantics (validated by native replay of witnesses), z3; stubs and bounds are listed in the evidence file."),
          "technique":n.get("technique","bounded symbolic execution of go/ssa + SMT (z3)")})
    else:
        m["not_applicable"].append({"property_id":i,"reason":notes.get(i,{}).get("na","check not built yet (framework under construction)")})
json.dump(m,open('/verif/MANIFEST.json','w'),indent=1)
print(len(m["checks"]),"claimed",len(m["not_applicable"]),"n/a")
