# source this: offline Go environment for the verification machinery
export PATH=/root/go/pkg/mod/golang.org/toolchain@v0.0.1-go1.25.0.linux-amd64/bin:$PATH
export GOTOOLCHAIN=local GOFLAGS=-mod=mod GOPROXY=off GOSUMDB=off GONOSUMDB=* GONOSUMCHECK=1 GOFLAGS=-mod=mod
