#!/bin/bash
# usage: trypatch.sh <patch.diff> <ID> [tier] [extra gosmt flags]
# Runs a check against /repo's HEAD plus a seeded change, in a scratch worktree (VERIF_REPO), so that /repo itself is
# never touched and other checks can run at the same time. The worktree is removed afterwards.
P="$(readlink -f "$1")"; ID="$2"; TIER="${3:-quick}"; shift; shift; shift 2>/dev/null
W=/tmp/trypatch-$ID-$$
git -C /repo worktree add -q --detach $W HEAD || exit 3
trap 'git -C /repo worktree remove --force $W >/dev/null 2>&1' EXIT
git -C $W apply "$P" || { echo "patch does not apply"; exit 3; }
VERIF_REPLAYDIR=$W/.verif-replays VERIF_REPO=$W /verif/check "$ID" "$TIER" -noevidence "$@" 2>&1 | grep -E "VIOLATION|KNOWN|OK property|INCONCLUSIVE|violation:" | tail -n 12
rc=${PIPESTATUS[0]}
echo "exit=$rc"
