#!/bin/bash
# usage: trypatch.sh <patch.diff> <ID> [tier]  -- apply a seeded change to /repo, run the check, undo.
P="$1"; ID="$2"; TIER="${3:-quick}"
git -C /repo apply "$P" || { echo "patch does not apply"; exit 3; }
/verif/check "$ID" "$TIER" -noevidence 2>&1 | grep -E "VIOLATION|KNOWN|OK property|INCONCLUSIVE|violation:" | head -12
rc=${PIPESTATUS[0]}
git -C /repo checkout -- .
echo "exit=$rc"
