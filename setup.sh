#!/bin/bash
# Builds the symbolic-execution engine offline from files on disk.
set -e
export PATH=/root/go/pkg/mod/golang.org/toolchain@v0.0.1-go1.25.0.linux-amd64/bin:$PATH
export GOTOOLCHAIN=local GOFLAGS=-mod=mod GOPROXY=off GOSUMDB=off
mkdir -p /verif/bin
cd /verif/engine && go build -o /verif/bin/gosmt.new . && mv -f /verif/bin/gosmt.new /verif/bin/gosmt
