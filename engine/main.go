package main

import (
	"encoding/json"
	"flag"
	"fmt"
	"go/ast"
	"go/types"
	"os"
	"path/filepath"
	"runtime"
	"sort"
	"strconv"
	"strings"
	"time"

	"golang.org/x/tools/go/packages"
	"golang.org/x/tools/go/ssa"
	"golang.org/x/tools/go/ssa/ssautil"
)

const verifRoot = "/verif"

var pkgDirs = map[string]string{
	"serf":       "serf",
	"coordinate": "coordinate",
	"agent":      "cmd/serf/command/agent",
	"client":     "client",
}

type Program struct {
	ssa            *ssa.Program
	pkgs           []*packages.Package
	target         *ssa.Package
	targetPkg      *packages.Package
	errorStringPtr types.Type
	timeType       types.Type
	initPkgs       map[string]bool
	funcs          map[string]*ssa.Function
	repo           string
	overlayFiles   map[string]string // virtual path -> real path
}

func (pr *Program) isTarget(p *ssa.Package) bool { return p == pr.target }

func (pr *Program) wantInit(p *ssa.Package) bool {
	return p == pr.target || pr.initPkgs[p.Pkg.Path()]
}

func (pr *Program) funcByName(name string) *ssa.Function {
	if pr.funcs == nil {
		pr.funcs = map[string]*ssa.Function{}
		for fn := range ssautil.AllFunctions(pr.ssa) {
			pr.funcs[fn.String()] = fn
		}
	}
	return pr.funcs[name]
}

func goEnv() []string {
	env := os.Environ()
	tc := "/root/go/pkg/mod/golang.org/toolchain@v0.0.1-go1.25.0.linux-amd64/bin"
	out := []string{}
	for _, kv := range env {
		if strings.HasPrefix(kv, "PATH=") {
			kv = "PATH=" + tc + ":" + kv[5:]
		}
		if strings.HasPrefix(kv, "GOFLAGS=") || strings.HasPrefix(kv, "GOTOOLCHAIN=") || strings.HasPrefix(kv, "GOPROXY=") || strings.HasPrefix(kv, "GOSUMDB=") {
			continue
		}
		out = append(out, kv)
	}
	out = append(out, "GOTOOLCHAIN=local", "GOFLAGS=-mod=mod", "GOPROXY=off", "GOSUMDB=off")
	return out
}

// harnessFiles returns the overlay map for a package and property.
func harnessFiles(repo, pkgKey, prop string) map[string]string {
	dir := filepath.Join(verifRoot, "harness", pkgKey)
	ents, _ := os.ReadDir(dir)
	m := map[string]string{}
	for _, e := range ents {
		n := e.Name()
		if !strings.HasPrefix(n, "zz_verif_") || !strings.HasSuffix(n, ".go") {
			continue
		}
		low := strings.ToLower(prop)
		shared := strings.HasPrefix(n, "zz_verif_common") || strings.HasPrefix(n, "zz_verif_env")
		mine := strings.HasPrefix(n, "zz_verif_"+low+".") || strings.HasPrefix(n, "zz_verif_"+low+"_")
		if shared || mine {
			m[filepath.Join(repo, pkgDirs[pkgKey], n)] = filepath.Join(dir, n)
		}
	}
	if pkgKey != "serf" {
		// exported helpers for building Serf values with unexported fields from other packages
		m[filepath.Join(repo, pkgDirs["serf"], "zz_verif_export.go")] = filepath.Join(verifRoot, "harness", "serf_export", "zz_verif_export.go")
	}
	return m
}

// droppedHarnessFiles: harness files left out because they did not compile against the tree under check.
var droppedHarnessFiles []string

func firstLine(s string) string {
	if i := strings.IndexByte(s, '\n'); i >= 0 {
		return s[:i]
	}
	return s
}

func loadProgram(repo, pkgKey, prop string) (*Program, error) {
	if pkgKey == "agent" && prop == "C31" {
		// the field-wise harness is generated from the current Config struct
		if err := genC31(repo); err != nil {
			return nil, fmt.Errorf("C31 generator: %v", err)
		}
	}
	files := harnessFiles(repo, pkgKey, prop)
	overlay := map[string][]byte{}
	for v, r := range files {
		b, err := os.ReadFile(r)
		if err != nil {
			return nil, err
		}
		overlay[v] = b
	}
	var pkgs []*packages.Package
	for attempt := 0; ; attempt++ {
		cfg := &packages.Config{
			Mode:       packages.LoadAllSyntax,
			Dir:        repo,
			BuildFlags: []string{"-tags=verif"},
			Overlay:    overlay,
			Env:        goEnv(),
		}
		var err error
		pkgs, err = packages.Load(cfg, "./"+pkgDirs[pkgKey])
		if err != nil {
			return nil, err
		}
		var errs []string
		packages.Visit(pkgs, nil, func(p *packages.Package) {
			for _, e := range p.Errors {
				errs = append(errs, e.Error())
			}
		})
		if len(errs) == 0 {
			break
		}
		// A harness file that no longer compiles against this tree (it looked at a private identifier the
		// tree has changed) is dropped, with a note that makes the run inconclusive unless another harness
		// reports a violation; the remaining harness files still run.
		dropped := false
		if attempt < 4 {
			for v := range overlay {
				base := filepath.Base(v)
				if !strings.HasPrefix(base, "zz_verif_c") {
					continue // common / env / export files are needed by everything
				}
				for _, e := range errs {
					if strings.Contains(e, base+":") {
						delete(overlay, v)
						delete(files, v)
						droppedHarnessFiles = append(droppedHarnessFiles, base+": "+firstLine(e))
						dropped = true
						break
					}
				}
			}
		}
		if !dropped {
			if len(errs) > 10 {
				errs = errs[:10]
			}
			return nil, fmt.Errorf("package load errors:\n%s", strings.Join(errs, "\n"))
		}
	}
	prog, spkgs := ssautil.AllPackages(pkgs, ssa.InstantiateGenerics)
	prog.Build()
	pr := &Program{ssa: prog, pkgs: pkgs, target: spkgs[0], targetPkg: pkgs[0], repo: repo, overlayFiles: files,
		initPkgs: map[string]bool{"encoding/base64": true, "io": true, "errors": true, "strconv": true, "os": false,
			"github.com/hashicorp/serf/coordinate": true, "github.com/hashicorp/serf/serf": true,
			"github.com/hashicorp/memberlist": false}}
	if ep := prog.ImportedPackage("errors"); ep != nil {
		pr.errorStringPtr = types.NewPointer(ep.Type("errorString").Type())
	}
	if tp := prog.ImportedPackage("time"); tp != nil {
		pr.timeType = tp.Type("Time").Type()
	}
	pr.funcByName("") // build the index before workers start
	return pr, nil
}

// parseDirectives reads //vf: lines from a harness function's doc comment.
func parseDirectives(doc *ast.CommentGroup, tier string) *Config {
	cfg := &Config{Unwind: 8, MaxSteps: 2000000, MaxAlloc: 4096, MaxConcretize: 16, MaxPaths: 50000,
		Timeout: 30 * time.Second, Overrides: map[string]string{}, Switches: 2, MaxTicks: 2, Bounds: map[string]string{}}
	if tier == "thorough" {
		cfg.Timeout = 120 * time.Second
		cfg.MaxPaths = 400000
	}
	if doc == nil {
		return cfg
	}
	for _, c := range doc.List {
		line := strings.TrimSpace(strings.TrimPrefix(c.Text, "//"))
		if !strings.HasPrefix(line, "vf:") {
			continue
		}
		line = line[3:]
		f := strings.Fields(line)
		if len(f) == 0 {
			continue
		}
		key := f[0]
		rest := strings.TrimSpace(line[len(key):])
		// "quick=.. thorough=.." selection
		val := rest
		if strings.Contains(rest, "quick=") || strings.Contains(rest, "thorough=") {
			for _, part := range strings.Fields(rest) {
				if strings.HasPrefix(part, tier+"=") {
					val = part[len(tier)+1:]
				}
			}
		}
		switch key {
		case "unwind":
			cfg.Unwind, _ = strconv.Atoi(val)
			cfg.Bounds["unwind"] = val
		case "steps":
			cfg.MaxSteps, _ = strconv.Atoi(val)
		case "paths":
			cfg.MaxPaths, _ = strconv.Atoi(val)
		case "concretize":
			cfg.MaxConcretize, _ = strconv.Atoi(val)
		case "timeout":
			d, err := time.ParseDuration(val)
			if err == nil {
				cfg.Timeout = d
			}
		case "sched":
			cfg.Sched = true
			cfg.Bounds["threads"] = "scheduled"
		case "switches":
			cfg.Switches, _ = strconv.Atoi(val)
			cfg.Bounds["preemptions"] = val
		case "maporder":
			cfg.MapOrder = true
		case "solver":
			cfg.Solver = val
		case "override":
			// //vf:override A = B
			parts := strings.SplitN(rest, "=", 2)
			if len(parts) == 2 {
				cfg.Overrides[strings.TrimSpace(parts[0])] = strings.TrimSpace(parts[1])
				cfg.Stubs = append(cfg.Stubs, strings.TrimSpace(parts[0])+" -> "+strings.TrimSpace(parts[1]))
			}
		case "bound":
			parts := strings.SplitN(rest, " ", 2)
			if len(parts) == 2 {
				cfg.Bounds[parts[0]] = parts[1]
			} else {
				cfg.Bounds[rest] = "true"
			}
		case "stub":
			cfg.Stubs = append(cfg.Stubs, rest)
		case "outside":
			cfg.Outside = append(cfg.Outside, rest)
		case "nonative":
			cfg.NoNative = os.Getenv("VERIF_FORCENATIVE") == ""
		case "numtokens":
			cfg.NumTokens = true
			cfg.Stubs = append(cfg.Stubs, "decimal formatting/parsing of symbolic integers (fmt %d / strconv.ParseUint) -> inverse pair on an opaque number token (the digit codec is trusted)")
		case "lazytimers":
			cfg.LazyTimers = true
			cfg.Bounds["timers"] = "fire only while the selecting thread would block (reduction: equivalent to the producer pausing)"
		case "ticks":
			cfg.MaxTicks, _ = strconv.Atoi(val)
			cfg.Bounds["ticker firings"] = val
		case "lazyfp":
			cfg.LazyFP = true
			cfg.Bounds["float branches"] = "not pruned during exploration (both sides explored); every verdict query carries the full path condition"
		case "fpsolver":
			cfg.FPSolver = val
			cfg.Bounds["float queries decided by"] = val + " (one-shot, full path condition)"
			cfg.Stubs = append(cfg.Stubs, "trusted solver for the exact float queries: "+val)
		case "fpexactin":
			cfg.FPExactIn = append(cfg.FPExactIn, strings.Fields(rest)...)
			cfg.Bounds["exact IEEE-754 arithmetic in the body of"] = rest
		case "fpabstract":
			if cfg.FPAbstract == nil {
				cfg.FPAbstract = map[string]bool{}
			}
			for _, f := range strings.Fields(rest) {
				cfg.FPAbstract[f] = true
			}
			cfg.Stubs = append(cfg.Stubs, "float "+rest+" -> arbitrary result (any double, NaN and infinities included): sound over-approximation")
		case "noyield":
			cfg.NoYield = append(cfg.NoYield, strings.Fields(rest)...)
			cfg.Bounds["no pre-emption at"] = rest
		}
	}
	return cfg
}

type harnessDecl struct {
	name string
	fn   *ssa.Function
	cfg  *Config
	tier string // "" = both, "thorough" = thorough only
}

func findHarnesses(pr *Program, prop, tier string) []*harnessDecl {
	var hs []*harnessDecl
	prefix := "Vf" + prop + "_"
	for name, m := range pr.target.Members {
		fn, ok := m.(*ssa.Function)
		if !ok || !strings.HasPrefix(name, prefix) {
			continue
		}
		var doc *ast.CommentGroup
		if fd, ok := fn.Syntax().(*ast.FuncDecl); ok {
			doc = fd.Doc
		}
		cfg := parseDirectives(doc, tier)
		hd := &harnessDecl{name: name, fn: fn, cfg: cfg}
		if doc != nil {
			for _, c := range doc.List {
				if strings.Contains(c.Text, "vf:tier thorough") {
					hd.tier = "thorough"
				}
			}
		}
		if hd.tier == "thorough" && tier != "thorough" {
			continue
		}
		hs = append(hs, hd)
	}
	sort.Slice(hs, func(i, j int) bool { return hs[i].name < hs[j].name })
	return hs
}

func loadKnown(prop string) []*KnownFinding {
	b, err := os.ReadFile(filepath.Join(verifRoot, "known_findings.json"))
	if err != nil {
		return nil
	}
	var doc struct {
		Findings []*KnownFinding `json:"findings"`
	}
	if err := json.Unmarshal(b, &doc); err != nil {
		fmt.Fprintln(os.Stderr, "known_findings.json:", err)
		os.Exit(2)
	}
	var r []*KnownFinding
	for _, k := range doc.Findings {
		if k.Property == prop {
			r = append(r, k)
		}
	}
	return r
}

func main() {
	tc := "/root/go/pkg/mod/golang.org/toolchain@v0.0.1-go1.25.0.linux-amd64/bin"
	os.Setenv("PATH", tc+":"+os.Getenv("PATH"))
	os.Setenv("GOTOOLCHAIN", "local")
	os.Setenv("GOFLAGS", "-mod=mod")
	os.Setenv("GOPROXY", "off")
	os.Setenv("GOSUMDB", "off")
	if len(os.Args) < 2 {
		fmt.Fprintln(os.Stderr, "usage: gosmt check -prop C19 -pkg serf [-tier quick|thorough] [-repo /repo] [-only Harness]")
		os.Exit(2)
	}
	switch os.Args[1] {
	case "check":
		os.Exit(cmdCheck(os.Args[2:]))
	default:
		fmt.Fprintln(os.Stderr, "unknown command")
		os.Exit(2)
	}
}

func cmdCheck(args []string) int {
	fs := flag.NewFlagSet("check", flag.ExitOnError)
	prop := fs.String("prop", "", "property id")
	pkgKeys := fs.String("pkg", "serf", "package key(s), comma separated")
	tier := fs.String("tier", "quick", "quick|thorough")
	repo := fs.String("repo", "", "repository root")
	only := fs.String("only", "", "run only this harness")
	workers := fs.Int("workers", runtime.NumCPU(), "parallel workers")
	noReplay := fs.Bool("noreplay", false, "skip native replay")
	noEvidence := fs.Bool("noevidence", false, "do not write evidence")
	fs.Parse(args)
	if *repo == "" {
		*repo = os.Getenv("VERIF_REPO")
		if *repo == "" {
			*repo = "/repo"
		}
	}
	if t := os.Getenv("VERIF_TIER"); t != "" && *tier == "" {
		*tier = t
	}
	seed := 0
	if s := os.Getenv("VERIF_SEED"); s != "" {
		seed, _ = strconv.Atoi(s)
	}
	t0 := time.Now()
	rep := &Report{Prop: *prop, Tier: *tier, Seed: seed, Repo: *repo}
	known := loadKnown(*prop)
	for _, pk := range strings.Split(*pkgKeys, ",") {
		pr, err := loadProgram(*repo, pk, *prop)
		if err != nil {
			fmt.Printf("INCONCLUSIVE property=%s cannot load/encode package %s: %v\n", *prop, pk, err)
			rep.Fatal = append(rep.Fatal, err.Error())
			continue
		}
		for _, d := range droppedHarnessFiles {
			rep.Fatal = append(rep.Fatal, "harness file left out, it does not compile against this tree (its harnesses were not run): "+d)
		}
		droppedHarnessFiles = nil
		hs := findHarnesses(pr, *prop, *tier)
		if len(hs) == 0 {
			rep.Fatal = append(rep.Fatal, "no harness found for "+*prop+" in "+pk)
		}
		var runs []*HarnessRun
		for _, hd := range hs {
			if *only != "" && hd.name != *only {
				continue
			}
			h := &HarnessRun{Name: hd.name, fn: hd.fn, cfg: hd.cfg, prog: pr, known: known, tier: *tier}
			w := *workers
			h.explore(w)
			runs = append(runs, h)
			fmt.Printf("  %-40s paths=%d %v steps=%d oblig=%d feasq=%d solver=%.1fs wall=%.1fs\n", h.Name, h.Paths, kindsStr(h.PathKinds), h.Steps, h.Obligations, h.FeasQueries, h.SolverTime.Seconds(), h.Wall.Seconds())
			if h.EngineErr != "" {
				fmt.Printf("  ENGINE-ERROR %s: %s\n", h.Name, h.EngineErr)
			}
		}
		if !*noReplay {
			nativeReplay(pr, pk, *prop, runs, rep)
		}
		rep.Runs = append(rep.Runs, runs...)
		rep.progs = append(rep.progs, pr)
	}
	rep.Wall = time.Since(t0)
	code := rep.finish(!*noEvidence)
	return code
}

func kindsStr(m map[string]int) string {
	var parts []string
	for _, k := range sortedKeys(m) {
		parts = append(parts, fmt.Sprintf("%s:%d", k, m[k]))
	}
	return "{" + strings.Join(parts, " ") + "}"
}
