package main

// Abstract file store, JSON and base64 models (DESIGN section 4(b)): the JSON and
// base64 round trips are trusted, not encoded. JSON encodes to a token that
// remembers the value; base64 is modelled as the identity on bytes (injective,
// length-preserving), including the low-level Encode(dst, src) that writes a
// prefix of dst and leaves the rest untouched.

import (
	"fmt"
	"go/types"
	"net"
	"strconv"
)

// fileObj is what an *os.File opened through the modelled os.OpenFile points to.
type fileObj struct {
	name       string
	appendMode bool
	wrote      bool
	closed     bool
}

// JSONBytes is the result of json.Marshal*: only "what value was encoded" is defined.
type JSONBytes struct {
	typ types.Type
	val Value
}

func init() {
	marshal := func(p *Path, fr *frame, a []Value) Value {
		ifc := a[0].(Iface)
		if ifc.T == nil {
			return Tuple{&JSONBytes{}, Iface{}}
		}
		return Tuple{&JSONBytes{typ: ifc.T, val: deepCopy(ifc.V, map[Ptr]Ptr{})}, Iface{}}
	}
	externals["encoding/json.MarshalIndent"] = marshal
	externals["encoding/json.Marshal"] = marshal
	externals["encoding/json.Unmarshal"] = func(p *Path, fr *frame, a []Value) Value {
		jb, ok := a[0].(*JSONBytes)
		out := a[1].(Iface)
		if !ok || jb.typ == nil {
			return p.errorValue(p.e.strOf("json: cannot decode (stub: not a JSON document)"))
		}
		typ, val := jb.typ, jb.val
		if pt, isPtr := typ.Underlying().(*types.Pointer); isPtr {
			if ptr, _ := val.(Ptr); ptr != nil {
				typ, val = pt.Elem(), *ptr
			}
		}
		opt, isPtr := out.T.Underlying().(*types.Pointer)
		if !isPtr || !types.Identical(opt.Elem().Underlying(), typ.Underlying()) {
			return p.errorValue(p.e.strOf("json: cannot decode (stub: type mismatch)"))
		}
		storeInPlace(out.V.(Ptr), deepCopy(val, map[Ptr]Ptr{}))
		return Iface{}
	}

	fileKey := func(v Value) string {
		s, ok := v.(*Str).Concrete()
		if !ok {
			panic(engineError("file name must be concrete"))
		}
		return s
	}
	// symbolic I/O failure, enabled per harness by vfFileFaults()
	ioErr := func(p *Path, what string) (Value, bool) {
		if _, on := p.ghost["fileFaults"]; !on {
			return nil, false
		}
		e := p.newInput("io."+what+".err", BoolSort)
		if p.Branch(e) {
			return p.errorValue(p.e.strOf(what + " failed (stub)")), true
		}
		return nil, false
	}
	externals["os.WriteFile"] = func(p *Path, fr *frame, a []Value) Value {
		if ev, failed := ioErr(p, "WriteFile"); failed {
			return ev
		}
		name := fileKey(a[0])
		p.files[name] = a[1]
		p.logs["writes:"+name] = append(p.logs["writes:"+name], a[1])
		return Iface{}
	}
	externals["os.ReadFile"] = func(p *Path, fr *frame, a []Value) Value {
		if ev, failed := ioErr(p, "ReadFile"); failed {
			return Tuple{Slice(nil), ev}
		}
		v, ok := p.files[fileKey(a[0])]
		if !ok {
			return Tuple{Slice(nil), p.errorValue(p.e.strOf("open: no such file or directory"))}
		}
		return Tuple{v, Iface{}}
	}
	externals["os.Stat"] = func(p *Path, fr *frame, a []Value) Value {
		if _, ok := p.files[fileKey(a[0])]; !ok {
			return Tuple{Iface{}, p.errorValue(p.e.strOf("stat: no such file or directory"))}
		}
		// callers in the checked code only look at the error
		return Tuple{Iface{}, Iface{}}
	}
	// os.OpenFile / (*os.File).Write / Sync / Close over the abstract store. Contents are abstract documents
	// without a length, so the one thing a handle adds over os.WriteFile - writing over existing content
	// without truncating it - is modelled by a choice: the new document is either at least as long as what was
	// there (the file then holds the new document) or shorter (the tail of the old content survives and the
	// file is no longer a document of any type).
	externals["os.OpenFile"] = func(p *Path, fr *frame, a []Value) Value {
		if ev, failed := ioErr(p, "OpenFile"); failed {
			return Tuple{nilPtr, ev}
		}
		name := fileKey(a[0])
		fl, ok := a[1].(*Term)
		if !ok || !fl.isConst {
			panic(engineError("os.OpenFile with symbolic flags"))
		}
		flags := int(fl.u)
		const oCreate, oTrunc, oAppend, oExcl = 0x40, 0x200, 0x400, 0x80
		_, exists := p.files[name]
		if !exists && flags&oCreate == 0 {
			return Tuple{nilPtr, p.errorValue(p.e.strOf("open: no such file or directory"))}
		}
		if exists && flags&oCreate != 0 && flags&oExcl != 0 {
			return Tuple{nilPtr, p.errorValue(p.e.strOf("open: file exists"))}
		}
		if !exists || flags&oTrunc != 0 {
			p.files[name] = &JSONBytes{} // empty: not a document
			p.ghost["file.empty:"+name] = true
		}
		cell := new(Value)
		*cell = &fileObj{name: name, appendMode: flags&oAppend != 0}
		return Tuple{Ptr(cell), Iface{}}
	}
	fileOf := func(v Value) *fileObj {
		ptr, _ := v.(Ptr)
		if ptr == nil {
			panic(targetPanic{msg: "runtime error: invalid memory address or nil pointer dereference (nil *os.File)"})
		}
		fo, ok := (*ptr).(*fileObj)
		if !ok {
			panic(engineError("*os.File of unknown origin (not opened through the modelled os.OpenFile)"))
		}
		return fo
	}
	fwrite := func(p *Path, fr *frame, a []Value) Value {
		fo := fileOf(a[0])
		if fo.closed {
			return Tuple{p.e.ts.BV(64, 0), p.errorValue(p.e.strOf("write: file already closed"))}
		}
		if ev, failed := ioErr(p, "Write"); failed {
			return Tuple{p.e.ts.BV(64, 0), ev}
		}
		_, empty := p.ghost["file.empty:"+fo.name]
		switch {
		case empty && !fo.wrote:
			p.files[fo.name] = a[1]
		case fo.wrote || fo.appendMode:
			p.files[fo.name] = &JSONBytes{} // two documents in a row are not a document
		default:
			// first write at offset 0 over existing content that was not truncated
			if p.Branch(p.newInput("write.shorter.than.old.content", BoolSort)) {
				p.files[fo.name] = &JSONBytes{}
			} else {
				p.files[fo.name] = a[1]
			}
		}
		delete(p.ghost, "file.empty:"+fo.name)
		fo.wrote = true
		p.logs["writes:"+fo.name] = append(p.logs["writes:"+fo.name], a[1])
		return Tuple{p.e.ts.BV(64, 1), Iface{}}
	}
	externals["(*os.File).Write"] = fwrite
	externals["(*os.File).Sync"] = func(p *Path, fr *frame, a []Value) Value {
		fileOf(a[0])
		if ev, failed := ioErr(p, "Sync"); failed {
			return ev
		}
		return Iface{}
	}
	externals["(*os.File).Close"] = func(p *Path, fr *frame, a []Value) Value {
		fo := fileOf(a[0])
		if fo.closed {
			return p.errorValue(p.e.strOf("close: file already closed"))
		}
		fo.closed = true
		return Iface{}
	}
	externals["(*os.File).Name"] = func(p *Path, fr *frame, a []Value) Value { return p.e.strOf(fileOf(a[0]).name) }
	intrinsics["vfFileFaults"] = func(p *Path, fr *frame, a []Value) Value { p.ghost["fileFaults"] = true; return nil }
	intrinsics["vfFileExists"] = func(p *Path, fr *frame, a []Value) Value {
		_, ok := p.files[fileKey(a[0])]
		return p.e.ts.Bool(ok)
	}
	intrinsics["vfFileWrites"] = func(p *Path, fr *frame, a []Value) Value {
		return p.e.ts.BV(64, uint64(len(p.logs["writes:"+fileKey(a[0])])))
	}
	// vfFileSet(name, jsonValue): the file holds the JSON document of the value
	intrinsics["vfFileSet"] = func(p *Path, fr *frame, a []Value) Value {
		ifc := a[1].(Iface)
		p.files[fileKey(a[0])] = &JSONBytes{typ: ifc.T, val: deepCopy(ifc.V, map[Ptr]Ptr{})}
		return nil
	}
	// vfFileJSON(name, &out): decodes the file's JSON document; false if absent / not JSON / other type
	intrinsics["vfFileJSON"] = func(p *Path, fr *frame, a []Value) Value {
		v, ok := p.files[fileKey(a[0])]
		if !ok {
			return p.e.ts.False
		}
		r := externals["encoding/json.Unmarshal"](p, fr, []Value{v, a[1]})
		return p.e.ts.Bool(r.(Iface).T == nil)
	}

	b64 := "(*encoding/base64.Encoding)."
	externals[b64+"EncodeToString"] = func(p *Path, fr *frame, a []Value) Value {
		return &Str{b: sliceBytes(a[1].(Slice))}
	}
	externals[b64+"DecodeString"] = func(p *Path, fr *frame, a []Value) Value {
		s := a[1].(*Str)
		if s.opaque {
			panic(engineError("base64 decode of opaque string"))
		}
		out := make(Slice, len(s.b))
		for i, t := range s.b {
			out[i] = t
		}
		return Tuple{out, Iface{}}
	}
	externals[b64+"EncodedLen"] = func(p *Path, fr *frame, a []Value) Value { return a[1] }
	externals[b64+"DecodedLen"] = func(p *Path, fr *frame, a []Value) Value { return a[1] }
	externals[b64+"Encode"] = func(p *Path, fr *frame, a []Value) Value {
		dst, src := a[1].(Slice), a[2].(Slice)
		if len(src) > len(dst) {
			panic(targetPanic{msg: fmt.Sprintf("runtime error: index out of range [%d] with length %d (base64 Encode into short buffer)", len(dst), len(dst))})
		}
		copy(dst, src)
		return nil
	}
}

// msgpack stream decoder/encoder of the agent's RPC connection: Decode hands out the
// next value the harness queued (vfQueueDecode); a value of another type, or an
// empty queue, is a decode error. Encode records what was written.
func init() {
	dec := "(*github.com/hashicorp/go-msgpack/v2/codec.Decoder).Decode"
	externals[dec] = func(p *Path, fr *frame, a []Value) Value {
		q := p.logs["dec.queue"]
		if len(q) == 0 {
			return p.errorValue(p.e.strOf("EOF"))
		}
		item := q[0].(Iface)
		p.logs["dec.queue"] = q[1:]
		out := a[1].(Iface)
		opt, isPtr := out.T.Underlying().(*types.Pointer)
		if isPtr && item.T == nil {
			if mark, _ := item.V.(string); mark == "msgpack-nil" {
				// a msgpack nil decodes into anything without an error: the target becomes its zero value
				// (a nil pointer for a pointer target)
				storeInPlace(out.V.(Ptr), p.e.zero(opt.Elem()))
				return Iface{}
			}
		}
		if !isPtr || item.T == nil {
			return p.errorValue(p.e.strOf("decode error (stub)"))
		}
		typ, val := item.T, item.V
		if pt, ok := typ.Underlying().(*types.Pointer); ok {
			if ptr, _ := val.(Ptr); ptr != nil {
				typ, val = pt.Elem(), *ptr
			}
		}
		if !types.Identical(opt.Elem(), typ) {
			return p.errorValue(p.e.strOf("decode error (stub: body of another type)"))
		}
		storeInPlace(out.V.(Ptr), deepCopy(val, map[Ptr]Ptr{}))
		return Iface{}
	}
	intrinsics["vfQueueDecode"] = func(p *Path, fr *frame, a []Value) Value {
		ifc := a[0].(Iface)
		p.logs["dec.queue"] = append(p.logs["dec.queue"], Iface{T: ifc.T, V: deepCopy(ifc.V, map[Ptr]Ptr{})})
		return nil
	}
	intrinsics["vfQueueDecodeNil"] = func(p *Path, fr *frame, a []Value) Value {
		p.logs["dec.queue"] = append(p.logs["dec.queue"], Iface{T: nil, V: "msgpack-nil"})
		return nil
	}
	intrinsics["vfDecodeQueueLen"] = func(p *Path, fr *frame, a []Value) Value {
		return p.e.ts.BV(64, uint64(len(p.logs["dec.queue"])))
	}
}

func init() {
	externals["fmt.Appendf"] = func(p *Path, fr *frame, a []Value) Value {
		s := p.sprintf(a[1].(*Str), a[2].(Slice))
		if s.opaque {
			panic(engineError("fmt.Appendf with a symbolic numeric argument"))
		}
		out, _ := a[0].(Slice)
		for _, t := range s.b {
			out = append(out, t)
		}
		if out == nil {
			out = Slice{}
		}
		return out
	}
	externals["(net.IP).String"] = func(p *Path, fr *frame, a []Value) Value {
		ip, _ := a[0].(Slice)
		var raw []byte
		for _, v := range ip {
			t := v.(*Term)
			if !t.isConst {
				return &Str{b: []*Term{p.e.byteConst['?']}, opaque: true}
			}
			raw = append(raw, byte(t.u))
		}
		return p.e.strOf(netIPString(raw))
	}
}

func init() {
	externals["github.com/hashicorp/go-msgpack/v2/codec.NewDecoder"] = func(p *Path, fr *frame, a []Value) Value { return nilPtr }
	externals["github.com/hashicorp/go-msgpack/v2/codec.NewDecoderBytes"] = func(p *Path, fr *frame, a []Value) Value { return nilPtr }
}

func init() {
	externals["strconv.ParseUint"] = func(p *Path, fr *frame, a []Value) Value {
		s := a[0].(*Str)
		ts := p.e.ts
		if s.opaque {
			panic(engineError("strconv.ParseUint of opaque string"))
		}
		if len(s.b) == 1 && s.b[0].sort == BVSort(64) {
			return Tuple{s.b[0], Iface{}} // number token: the value it was formatted from
		}
		for _, t := range s.b {
			if t.sort != BVSort(8) {
				return Tuple{ts.BV(64, 0), p.errorValue(p.e.strOf("strconv.ParseUint: invalid syntax (number token inside other text)"))}
			}
		}
		if cs, ok := s.Concrete(); ok {
			v, err := strconv.ParseUint(cs, concInt(a[1]), concInt(a[2]))
			if err != nil {
				return Tuple{ts.BV(64, v), p.errorValue(p.e.strOf(err.Error()))}
			}
			return Tuple{ts.BV(64, v), Iface{}}
		}
		// symbolic bytes: a parse error unless every byte is a digit; the value of an all-digit
		// symbolic string is not modelled (arbitrary)
		allDigits := ts.Bool(len(s.b) > 0)
		for _, t := range s.b {
			allDigits = ts.And(allDigits, ts.And(ts.BVCmp("bvuge", t, ts.BV(8, '0')), ts.BVCmp("bvule", t, ts.BV(8, '9'))))
		}
		if p.Branch(allDigits) {
			return Tuple{p.newInput("parsed.number", BVSort(64)), Iface{}}
		}
		return Tuple{ts.BV(64, 0), p.errorValue(p.e.strOf("strconv.ParseUint: invalid syntax"))}
	}
	lastIndexByte := func(p *Path, b []*Term, c *Term) *Term {
		ts := p.e.ts
		r := ts.BV(64, ^uint64(0))
		for i := 0; i < len(b); i++ {
			r = ts.Ite(ts.Eq(b[i], c), ts.BV(64, uint64(i)), r)
		}
		return r
	}
	externals["internal/bytealg.LastIndexByteString"] = func(p *Path, fr *frame, a []Value) Value {
		return lastIndexByte(p, a[0].(*Str).b, a[1].(*Term))
	}
	externals["internal/bytealg.LastIndexByte"] = func(p *Path, fr *frame, a []Value) Value {
		return lastIndexByte(p, sliceBytes(a[0].(Slice)), a[1].(*Term))
	}
	externals["(*net.TCPAddr).String"] = func(p *Path, fr *frame, a []Value) Value {
		st := (*a[0].(Ptr)).(Struct)
		ip, _ := st[0].(Slice)
		var raw []byte
		for _, v := range ip {
			t := v.(*Term)
			if !t.isConst {
				panic(engineError("(*net.TCPAddr).String with symbolic IP"))
			}
			raw = append(raw, byte(t.u))
		}
		port := st[1].(*Term)
		if !port.isConst {
			panic(engineError("(*net.TCPAddr).String with symbolic port"))
		}
		return p.e.strOf((&net.TCPAddr{IP: net.IP(raw), Port: int(port.S())}).String())
	}
}

func init() {
	// vfTrace(msg): prints a concrete message on stderr when VERIF_DEBUG is set (harness debugging)
	intrinsics["vfTrace"] = func(p *Path, fr *frame, a []Value) Value {
		if debugOn {
			if s, ok := a[0].(*Str).Concrete(); ok {
				dbg("trace: %s", s)
			} else {
				dbg("trace: <symbolic string of %d bytes>", len(a[0].(*Str).b))
			}
		}
		return nil
	}
}
