package main

// Value representation of the symbolic executor: structure is concrete,
// scalars are SMT terms.

import (
	"fmt"
	"go/constant"
	"go/types"
	"strings"

	"golang.org/x/tools/go/ssa"
)

type Value = interface{}

// Str is an immutable Go string of concrete length whose bytes are BV8 terms.
type Str struct {
	b      []*Term
	opaque bool // content is a placeholder (formatted message); inspecting it is an engine error
}

type Struct []Value
type Array []Value
type Slice []Value
type Tuple []Value
type Ptr = *Value

type Iface struct {
	T types.Type
	V Value
}

type Closure struct {
	Fn  *ssa.Function
	Env []Value
}

type MapEnt struct {
	k, v Value
}

type Map struct {
	ents []*MapEnt
	kt   types.Type
	vt   types.Type
}

// Chan is a Go channel. Unbuffered channels are only usable in scheduled mode.
type Chan struct {
	id     int
	buf    []Value
	cap    int
	closed bool
	et     types.Type
	// rendezvous for unbuffered channels (scheduled mode)
	recvWaiting int
	handoff     bool // an unbuffered value was handed to a receiver blocked in select (it must take it)
	name        string
	timer       *timerState
}

type bad struct{}

// nilPtr is the typed nil pointer.
var nilPtr Ptr = nil

func isNilPtr(v Value) bool {
	p, ok := v.(Ptr)
	return ok && p == nil
}

func (e *Engine) strOf(s string) *Str {
	b := make([]*Term, len(s))
	for i := 0; i < len(s); i++ {
		b[i] = e.byteConst[s[i]]
	}
	return &Str{b: b}
}

func (s *Str) Concrete() (string, bool) {
	var sb strings.Builder
	for _, t := range s.b {
		if !t.isConst {
			return "", false
		}
		sb.WriteByte(byte(t.u))
	}
	return sb.String(), true
}

func intWidth(b *types.Basic) (w int, signed bool, ok bool) {
	switch b.Kind() {
	case types.Int8:
		return 8, true, true
	case types.Int16:
		return 16, true, true
	case types.Int32, types.UntypedRune:
		return 32, true, true
	case types.Int64, types.Int, types.UntypedInt:
		return 64, true, true
	case types.Uint8:
		return 8, false, true
	case types.Uint16:
		return 16, false, true
	case types.Uint32:
		return 32, false, true
	case types.Uint64, types.Uint, types.Uintptr:
		return 64, false, true
	}
	return 0, false, false
}

func basicOf(t types.Type) *types.Basic {
	b, _ := t.Underlying().(*types.Basic)
	return b
}

func isSignedT(t types.Type) bool {
	if b := basicOf(t); b != nil {
		_, s, ok := intWidth(b)
		return ok && s
	}
	return false
}

func isFloatT(t types.Type) bool {
	if b := basicOf(t); b != nil {
		return b.Info()&types.IsFloat != 0
	}
	return false
}

func isStringT(t types.Type) bool {
	if b := basicOf(t); b != nil {
		return b.Info()&types.IsString != 0
	}
	return false
}

func sortOfBasic(b *types.Basic) (Sort, bool) {
	if w, _, ok := intWidth(b); ok {
		return BVSort(w), true
	}
	switch b.Kind() {
	case types.Bool, types.UntypedBool:
		return BoolSort, true
	case types.Float32:
		return FPSort(32), true
	case types.Float64, types.UntypedFloat:
		return FPSort(64), true
	}
	return Sort{}, false
}

// zero returns the zero value of type t.
func (e *Engine) zero(t types.Type) Value {
	switch t := t.(type) {
	case *types.Basic:
		if t.Kind() == types.UntypedNil {
			panic(engineError("untyped nil has no zero value"))
		}
		if s, ok := sortOfBasic(t); ok {
			switch s.K {
			case SBool:
				return e.ts.False
			case SBV:
				return e.ts.BV(s.W, 0)
			case SFP:
				return e.ts.FP(s.W, 0)
			}
		}
		if t.Info()&types.IsString != 0 {
			return &Str{}
		}
		if t.Kind() == types.UnsafePointer {
			return nilPtr
		}
		panic(engineError(fmt.Sprintf("zero: unsupported basic type %v", t)))
	case *types.Pointer:
		return nilPtr
	case *types.Array:
		a := make(Array, t.Len())
		for i := range a {
			a[i] = e.zero(t.Elem())
		}
		return a
	case *types.Slice:
		return Slice(nil)
	case *types.Struct:
		s := make(Struct, t.NumFields())
		for i := range s {
			s[i] = e.zero(t.Field(i).Type())
		}
		return s
	case *types.Tuple:
		if t.Len() == 1 {
			return e.zero(t.At(0).Type())
		}
		s := make(Tuple, t.Len())
		for i := range s {
			s[i] = e.zero(t.At(i).Type())
		}
		return s
	case *types.Chan:
		return (*Chan)(nil)
	case *types.Map:
		return (*Map)(nil)
	case *types.Signature:
		return (*Closure)(nil)
	case *types.Interface:
		return Iface{}
	case *types.Named:
		return e.zero(t.Underlying())
	case *types.Alias:
		return e.zero(types.Unalias(t))
	}
	panic(engineError(fmt.Sprintf("zero: unsupported type %T %v", t, t)))
}

func copyVal(v Value) Value {
	switch v := v.(type) {
	case Struct:
		c := make(Struct, len(v))
		for i := range v {
			c[i] = copyVal(v[i])
		}
		return c
	case Array:
		c := make(Array, len(v))
		for i := range v {
			c[i] = copyVal(v[i])
		}
		return c
	}
	return v
}

func (e *Engine) constValue(c *ssa.Const) Value {
	if c.Value == nil {
		return e.zero(c.Type())
	}
	t := c.Type().Underlying()
	if b, ok := t.(*types.Basic); ok {
		if w, signed, ok := intWidth(b); ok {
			if signed {
				return e.ts.BV(w, uint64(c.Int64()))
			}
			return e.ts.BV(w, c.Uint64())
		}
		switch {
		case b.Info()&types.IsBoolean != 0:
			return e.ts.Bool(constant.BoolVal(c.Value))
		case b.Info()&types.IsFloat != 0:
			f := c.Float64()
			if b.Kind() == types.Float32 {
				return e.ts.FP(32, f)
			}
			return e.ts.FP(64, f)
		case b.Info()&types.IsString != 0:
			if c.Value.Kind() == constant.String {
				return e.strOf(constant.StringVal(c.Value))
			}
		}
	}
	panic(engineError(fmt.Sprintf("constValue: unsupported constant %v of type %v", c, c.Type())))
}

// eqVal returns the Bool term for a == b under Go semantics.
func (e *Engine) eqVal(a, b Value) *Term {
	ts := e.ts
	switch x := a.(type) {
	case *Term:
		return ts.Eq(x, b.(*Term))
	case *Str:
		y := b.(*Str)
		if x.opaque || y.opaque {
			panic(engineError("comparison of opaque (formatted) string"))
		}
		if len(x.b) != len(y.b) {
			return ts.False
		}
		r := ts.True
		for i := range x.b {
			r = ts.And(r, ts.Eq(x.b[i], y.b[i]))
		}
		return r
	case Ptr:
		return ts.Bool(x == b.(Ptr))
	case *Map:
		return ts.Bool(x == b.(*Map))
	case *Chan:
		return ts.Bool(x == b.(*Chan))
	case *Closure:
		y, _ := b.(*Closure)
		if x == nil && y == nil {
			return ts.True
		}
		if (x == nil) != (y == nil) {
			return ts.False
		}
		panic(engineError("comparison of non-nil funcs"))
	case *ssa.Function:
		if y, ok := b.(*Closure); ok && y == nil {
			return ts.Bool(x == nil)
		}
		panic(engineError("comparison of funcs"))
	case Struct:
		y := b.(Struct)
		r := ts.True
		for i := range x {
			r = ts.And(r, e.eqVal(x[i], y[i]))
		}
		return r
	case Array:
		y := b.(Array)
		r := ts.True
		for i := range x {
			r = ts.And(r, e.eqVal(x[i], y[i]))
		}
		return r
	case Slice:
		y := b.(Slice)
		if x == nil && y == nil {
			return ts.True
		}
		if x == nil || y == nil {
			return ts.Bool(x == nil && y == nil)
		}
		panic(engineError("comparison of non-nil slices"))
	case Iface:
		y := b.(Iface)
		if x.T == nil || y.T == nil {
			return ts.Bool(x.T == nil && y.T == nil)
		}
		if !types.Identical(x.T, y.T) {
			return ts.False
		}
		return e.eqVal(x.V, y.V)
	case nil:
		return ts.Bool(b == nil)
	}
	panic(engineError(fmt.Sprintf("eqVal: unsupported %T", a)))
}

func showVal(e *Engine, v Value) string {
	switch v := v.(type) {
	case *Term:
		return e.ts.Show(v)
	case *Str:
		if s, ok := v.Concrete(); ok {
			return fmt.Sprintf("%q", s)
		}
		return fmt.Sprintf("str[%d]", len(v.b))
	case Struct:
		var parts []string
		for _, f := range v {
			parts = append(parts, showVal(e, f))
		}
		return "{" + strings.Join(parts, ",") + "}"
	case Iface:
		if v.T == nil {
			return "nil"
		}
		return fmt.Sprintf("iface(%v,%s)", v.T, showVal(e, v.V))
	case Ptr:
		if v == nil {
			return "nil"
		}
		return fmt.Sprintf("ptr(%p)", v)
	}
	return fmt.Sprintf("%T", v)
}
