package main

// Environment stubs specific to hashicorp/serf and hashicorp/memberlist:
// identity codec on token buffers, recording transmit queues and transport.

import (
	"fmt"
	"go/types"
)

const serfPkg = "github.com/hashicorp/serf/serf"

type tokenRec struct {
	typ   types.Type
	val   Value
	isNil bool
}

func deepCopy(v Value, seen map[Ptr]Ptr) Value {
	switch x := v.(type) {
	case Struct:
		c := make(Struct, len(x))
		for i := range x {
			c[i] = deepCopy(x[i], seen)
		}
		return c
	case Array:
		c := make(Array, len(x))
		for i := range x {
			c[i] = deepCopy(x[i], seen)
		}
		return c
	case Slice:
		if x == nil {
			return x
		}
		c := make(Slice, len(x))
		for i := range x {
			c[i] = deepCopy(x[i], seen)
		}
		return c
	case *Map:
		if x == nil {
			return x
		}
		c := &Map{kt: x.kt, vt: x.vt}
		for _, e := range x.ents {
			c.ents = append(c.ents, &MapEnt{k: deepCopy(e.k, seen), v: deepCopy(e.v, seen)})
		}
		return c
	case Ptr:
		if x == nil {
			return x
		}
		if n, ok := seen[x]; ok {
			return n
		}
		n := new(Value)
		seen[x] = n
		*n = deepCopy(*x, seen)
		return n
	case Iface:
		return Iface{T: x.T, V: deepCopy(x.V, seen)}
	}
	return v
}

const tokenMagic = 0xF5

func (p *Path) putToken(first *Term, msg Iface) Slice {
	typ := msg.T
	val := msg.V
	if pt, ok := typ.Underlying().(*types.Pointer); ok {
		ptr := val.(Ptr)
		if ptr == nil {
			// msgpack encodes a nil pointer as nil; decoding nil leaves the destination untouched
			id := len(p.tokens)
			p.tokens = append(p.tokens, tokenRec{typ: pt.Elem(), isNil: true})
			out := Slice{}
			if first != nil {
				out = append(out, first)
			}
			return append(out, p.e.byteConst[tokenMagic], p.e.byteConst[id])
		}
		typ = pt.Elem()
		val = *ptr
	}
	id := len(p.tokens)
	p.tokens = append(p.tokens, tokenRec{typ: typ, val: deepCopy(val, map[Ptr]Ptr{})})
	out := Slice{}
	if first != nil {
		out = append(out, first)
	}
	out = append(out, p.e.byteConst[tokenMagic], p.e.byteConst[id])
	return out
}

// getToken decodes buf (without the leading type byte) into out; returns false if buf is no token of the right type.
func (p *Path) getToken(buf Slice, out Iface) bool {
	if len(buf) != 2 {
		return false
	}
	m, ok1 := buf[0].(*Term)
	idt, ok2 := buf[1].(*Term)
	if !ok1 || !ok2 || !m.isConst || !idt.isConst || m.u != tokenMagic {
		return false
	}
	id := int(idt.u)
	if id >= len(p.tokens) {
		return false
	}
	tok := p.tokens[id]
	pt, ok := out.T.Underlying().(*types.Pointer)
	if !ok {
		return false
	}
	if !types.Identical(pt.Elem(), tok.typ) {
		return false
	}
	if tok.isNil {
		return true
	}
	ptr := out.V.(Ptr)
	nv := deepCopy(tok.val, map[Ptr]Ptr{})
	// msgpack writes only the keys present in the payload: a sender may leave fields out (omitted, older
	// version), and those keep whatever the destination held. That differs from "field sent as zero" only when
	// the destination is not a fresh zero value, so only then is it a choice: the zero-valued fields of the
	// sent struct were absent (kept from the destination) or present.
	if old, ok := (*ptr).(Struct); ok {
		if ns, ok2 := nv.(Struct); ok2 && len(ns) == len(old) && !isZeroVal(old) {
			if p.Branch(p.newInput("decode.sparse", BoolSort)) {
				for i := range ns {
					if isZeroVal(ns[i]) {
						ns[i] = old[i]
					}
				}
			}
		}
	}
	storeInPlace(ptr, nv)
	return true
}

// isZeroVal: v is certainly the zero value of its type (symbolic content counts as non-zero).
func isZeroVal(v Value) bool {
	switch x := v.(type) {
	case nil:
		return true
	case *Term:
		return x.isConst && x.u == 0
	case *Str:
		return len(x.b) == 0
	case Ptr:
		return x == nil
	case Slice:
		return len(x) == 0
	case Iface:
		return x.T == nil
	case Struct:
		for _, f := range x {
			if !isZeroVal(f) {
				return false
			}
		}
		return true
	case Array:
		for _, f := range x {
			if !isZeroVal(f) {
				return false
			}
		}
		return true
	case *Map:
		return x == nil || len(x.ents) == 0
	}
	return false
}

func init() {
	externals[serfPkg+".encodeMessage"] = func(p *Path, fr *frame, a []Value) Value {
		t := a[0].(*Term)
		return Tuple{p.putToken(p.e.ts.Resize(t, 8, false), a[1].(Iface)), Iface{}}
	}
	externals[serfPkg+".decodeMessage"] = func(p *Path, fr *frame, a []Value) Value {
		if p.getToken(a[0].(Slice), a[1].(Iface)) {
			return Iface{}
		}
		return p.errorValue(p.e.strOf("decode error (stub: not a well-formed message of this type)"))
	}
	externals[serfPkg+".encodeFilter"] = func(p *Path, fr *frame, a []Value) Value {
		t := a[0].(*Term)
		return Tuple{p.putToken(p.e.ts.Resize(t, 8, false), a[1].(Iface)), Iface{}}
	}
	externals[serfPkg+".encodeRelayMessage"] = func(p *Path, fr *frame, a []Value) Value {
		// real layout: [messageRelayType][encoded relayHeader][t][encoded msg]; modelled as a token of the tuple
		panic(engineError("encodeRelayMessage stub not implemented yet"))
	}

	q := "(*github.com/hashicorp/memberlist.TransmitLimitedQueue)."
	externals[q+"QueueBroadcast"] = func(p *Path, fr *frame, a []Value) Value {
		key := fmt.Sprintf("queue:%p", a[0].(Ptr))
		p.logs[key] = append(p.logs[key], a[1])
		return nil
	}
	externals[q+"NumQueued"] = func(p *Path, fr *frame, a []Value) Value {
		key := fmt.Sprintf("queue:%p", a[0].(Ptr))
		return p.e.ts.BV(64, uint64(len(p.logs[key])))
	}
	externals[q+"Reset"] = func(p *Path, fr *frame, a []Value) Value {
		key := fmt.Sprintf("queue:%p", a[0].(Ptr))
		p.logs[key] = nil
		return nil
	}
	externals[q+"Prune"] = noop
	// GetBroadcasts returns the messages of everything queued, oldest first, and empties the queue
	externals[q+"GetBroadcasts"] = func(p *Path, fr *frame, a []Value) Value {
		key := fmt.Sprintf("queue:%p", a[0].(Ptr))
		var out Slice
		for _, b := range p.logs[key] {
			ifc := b.(Iface)
			m := p.prog.LookupMethod(ifc.T, nil, "Message")
			if m == nil {
				panic(engineError("broadcast without Message method"))
			}
			out = append(out, p.call(fr, 0, m, []Value{ifc.V}))
		}
		p.logs[key] = nil
		return out
	}

	ml := "(*github.com/hashicorp/memberlist.Memberlist)."
	externals[ml+"SendToAddress"] = func(p *Path, fr *frame, a []Value) Value {
		p.logs["packets"] = append(p.logs["packets"], Tuple{a[1], a[2]})
		return Iface{}
	}
	externals[ml+"NumMembers"] = func(p *Path, fr *frame, a []Value) Value {
		if v, ok := p.ghost["numMembers"]; ok {
			return v
		}
		return p.e.ts.BV(64, 3)
	}
	externals[ml+"GetHealthScore"] = func(p *Path, fr *frame, a []Value) Value { return p.e.ts.BV(64, 0) }
	externals[ml+"UpdateNode"] = func(p *Path, fr *frame, a []Value) Value {
		p.logs["ml.UpdateNode"] = append(p.logs["ml.UpdateNode"], p.e.ts.True)
		if _, on := p.ghost["mlFaults"]; on {
			e := p.newInput("ml.UpdateNode.err", BoolSort)
			if p.Branch(e) {
				return p.errorValue(p.e.strOf("memberlist UpdateNode failed (stub)"))
			}
		}
		return Iface{}
	}

	intrinsics["vfTime"] = func(p *Path, fr *frame, a []Value) Value {
		t := p.newInput(concStr(a[0]), BVSort(64))
		ts := p.e.ts
		return p.mkTime(ts.BVBin("bvand", t, ts.BV(64, 1<<62-1)))
	}
	intrinsics["vfB2I"] = func(p *Path, fr *frame, a []Value) Value {
		ts := p.e.ts
		return ts.Ite(a[0].(*Term), ts.BV(64, 1), ts.BV(64, 0))
	}
	intrinsics["vfPackets"] = func(p *Path, fr *frame, a []Value) Value {
		return p.e.ts.BV(64, uint64(len(p.logs["packets"])))
	}
}

func init() {
	externals[serfPkg+".encodeRelayMessage"] = func(p *Path, fr *frame, a []Value) Value {
		// (t messageType, addr net.UDPAddr, nodeName string, msg any, newFmt bool)
		t := a[0].(*Term)
		hdr := Struct{a[1], a[2], a[3]}
		id := len(p.tokens)
		p.tokens = append(p.tokens, tokenRec{typ: nil, val: deepCopy(hdr, map[Ptr]Ptr{})})
		out := Slice{p.e.byteConst[11], p.e.byteConst[tokenMagic], p.e.byteConst[id], p.e.ts.Resize(t, 8, false)}
		return Tuple{out, Iface{}}
	}
	ml := "(*github.com/hashicorp/memberlist.Memberlist)."
	externals[ml+"LocalNode"] = func(p *Path, fr *frame, a []Value) Value {
		if v, ok := p.ghost["localNode"]; ok {
			return v
		}
		panic(engineError("LocalNode: harness did not provide a local node (vfSetLocalNode)"))
	}
	intrinsics["vfSetLocalNode"] = func(p *Path, fr *frame, a []Value) Value {
		p.ghost["localNode"] = a[0].(Iface).V
		return nil
	}
	intrinsics["vfSetNumMembers"] = func(p *Path, fr *frame, a []Value) Value {
		p.ghost["numMembers"] = a[0]
		return nil
	}
	// vfPacket(i) returns the i-th packet handed to the transport: (address name, address string, bytes)
	intrinsics["vfPacketName"] = func(p *Path, fr *frame, a []Value) Value {
		pk := p.logs["packets"][concInt(a[0])].(Tuple)
		return pk[0].(Struct)[1]
	}
	intrinsics["vfPacketAddr"] = func(p *Path, fr *frame, a []Value) Value {
		pk := p.logs["packets"][concInt(a[0])].(Tuple)
		return pk[0].(Struct)[0]
	}
	intrinsics["vfPacketBytes"] = func(p *Path, fr *frame, a []Value) Value {
		pk := p.logs["packets"][concInt(a[0])].(Tuple)
		return pk[1]
	}
	randInt := func(w int) extFn {
		return func(p *Path, fr *frame, a []Value) Value {
			ts := p.e.ts
			n := a[0].(*Term)
			if p.Branch(ts.BVCmp("bvsle", n, ts.BV(w, 0))) {
				panic(targetPanic{msg: "invalid argument to Intn"})
			}
			r := p.newInput("rand", BVSort(w))
			p.assumeQuiet(ts.And(ts.BVCmp("bvsge", r, ts.BV(w, 0)), ts.BVCmp("bvslt", r, n)))
			return r
		}
	}
	externals["math/rand.Intn"] = randInt(64)
	externals["math/rand.Int63n"] = randInt(64)
	externals["math/rand.Int31n"] = randInt(32)
	externals["math/rand.Int31"] = func(p *Path, fr *frame, a []Value) Value {
		ts := p.e.ts
		r := p.newInput("rand", BVSort(32))
		p.assumeQuiet(ts.BVCmp("bvsge", r, ts.BV(32, 0)))
		return r
	}
	externals["math/rand.Uint32"] = func(p *Path, fr *frame, a []Value) Value { return p.newInput("rand", BVSort(32)) }
	externals["(*net.UDPAddr).String"] = func(p *Path, fr *frame, a []Value) Value {
		// injective rendering is not needed by any assertion: opaque
		return &Str{b: []*Term{p.e.byteConst['?']}, opaque: true}
	}
}

// OpaqueBytes is an encoded message of symbolic length whose content is never inspected
// (size-limit harnesses): only len() is defined on it.
type OpaqueBytes struct {
	length *Term
	tok    int
}

func (p *Path) opaqueEnc(first *Term, msg Iface) Value {
	ts := p.e.ts
	l := p.newInput("enclen", BVSort(64))
	p.assumeQuiet(ts.And(ts.BVCmp("bvsge", l, ts.BV(64, 1)), ts.BVCmp("bvsle", l, ts.BV(64, 1<<24))))
	p.ghost["lastEncLen"] = l
	p.logs["encLens"] = append(p.logs["encLens"], l)
	ob := &OpaqueBytes{length: l, tok: -1}
	if msg.T != nil {
		// keep the encoded value so that a harness can "decode" the opaque buffer again
		typ, val := msg.T, msg.V
		if pt, ok := typ.Underlying().(*types.Pointer); ok {
			if ptr := val.(Ptr); ptr != nil {
				typ, val = pt.Elem(), *ptr
			}
		}
		ob.tok = len(p.tokens)
		p.tokens = append(p.tokens, tokenRec{typ: typ, val: deepCopy(val, map[Ptr]Ptr{})})
	}
	return ob
}

func init() {
	wrap := func(name string, msgArg int) {
		orig := externals[name]
		externals[name] = func(p *Path, fr *frame, a []Value) Value {
			if _, ok := p.ghost["opaqueEnc"]; ok {
				ifc, _ := a[msgArg].(Iface)
				return Tuple{p.opaqueEnc(nil, ifc), Iface{}}
			}
			return orig(p, fr, a)
		}
	}
	wrap(serfPkg+".encodeMessage", 1)
	wrap(serfPkg+".encodeRelayMessage", 3)
	intrinsics["vfOpaqueEncoding"] = func(p *Path, fr *frame, a []Value) Value {
		p.ghost["opaqueEnc"] = true
		return nil
	}
	intrinsics["vfLastEncLen"] = func(p *Path, fr *frame, a []Value) Value {
		if v, ok := p.ghost["lastEncLen"]; ok {
			return v
		}
		return p.e.ts.BV(64, 0)
	}
	intrinsics["vfEncLen"] = func(p *Path, fr *frame, a []Value) Value {
		i := concInt(a[0])
		if i < len(p.logs["encLens"]) {
			return p.logs["encLens"][i]
		}
		return p.e.ts.BV(64, 0)
	}
	intrinsics["vfPacketLen"] = func(p *Path, fr *frame, a []Value) Value {
		pk := p.logs["packets"][concInt(a[0])].(Tuple)
		switch b := pk[1].(type) {
		case *OpaqueBytes:
			return b.length
		case Slice:
			return p.e.ts.BV(64, uint64(len(b)))
		}
		panic(engineError("vfPacketLen: unexpected packet payload"))
	}
	// vfQueuedLen(q, i): length of the i-th broadcast queued on q
	intrinsics["vfQueuedLen"] = func(p *Path, fr *frame, a []Value) Value {
		key := fmt.Sprintf("queue:%p", a[0].(Ptr))
		b := p.logs[key][concInt(a[1])].(Iface)
		msg := (*b.V.(Ptr)).(Struct)[0]
		switch m := msg.(type) {
		case *OpaqueBytes:
			return m.length
		case Slice:
			return p.e.ts.BV(64, uint64(len(m)))
		}
		panic(engineError("vfQueuedLen: unexpected message"))
	}
}

func init() {
	intrinsics["vfFixedBytes"] = func(p *Path, fr *frame, a []Value) Value {
		name := p.inputName(concStr(a[0]))
		n := concInt(a[1])
		out := make(Slice, n)
		for i := 0; i < n; i++ {
			vn := fmt.Sprintf("%s[%d]", name, i)
			v := p.e.ts.Var(vn, BVSort(8))
			if !p.inputSet[vn] {
				p.inputSet[vn] = true
				p.inputs = append(p.inputs, v)
			}
			out[i] = v
		}
		return out
	}
}

func init() {
	externals["(*sync/atomic.Value).Store"] = func(p *Path, fr *frame, a []Value) Value {
		p.yield(fr, nil, "atomic.Value.Store")
		st := (*a[0].(Ptr)).(Struct)
		if a[1].(Iface).T == nil {
			panic(targetPanic{msg: "sync/atomic: store of nil value into Value"})
		}
		st[0] = a[1]
		return nil
	}
	externals["(*sync/atomic.Value).Load"] = func(p *Path, fr *frame, a []Value) Value {
		p.yield(fr, nil, "atomic.Value.Load")
		st := (*a[0].(Ptr)).(Struct)
		return st[0]
	}
	externals["slices.Contains[[]uint32 uint32]"] = nil
	delete(externals, "slices.Contains[[]uint32 uint32]")
}

// regexp: concrete arguments are evaluated by the real regexp package; symbolic
// arguments give an uninterpreted outcome (fresh match / compile-error
// variables), logged so that the harness's reference predicate speaks about the
// very same outcomes.
func init() {
	externals["regexp.MatchString"] = func(p *Path, fr *frame, a []Value) Value {
		pat, sub := a[0].(*Str), a[1].(*Str)
		ts := p.e.ts
		if pat.opaque || sub.opaque {
			panic(engineError("regexp.MatchString on opaque string"))
		}
		cp, ok1 := pat.Concrete()
		cs, ok2 := sub.Concrete()
		if ok1 && ok2 {
			m, err := regexpMatchString(cp, cs)
			p.logs["re"] = append(p.logs["re"], Tuple{pat, sub, ts.Bool(m), ts.Bool(err != nil)})
			if err != nil {
				return Tuple{ts.False, p.errorValue(p.e.strOf("regexp: " + err.Error()))}
			}
			return Tuple{ts.Bool(m), Iface{}}
		}
		if ok1 {
			// concrete pattern, symbolic subject: exact NFA encoding
			ro, err := compileRe(cp)
			if err != nil {
				p.logs["re"] = append(p.logs["re"], Tuple{pat, sub, ts.False, ts.True})
				return Tuple{ts.False, p.errorValue(p.e.strOf("regexp: " + err.Error()))}
			}
			m := p.matchTerm(ro, sub.b)
			p.logs["re"] = append(p.logs["re"], Tuple{pat, sub, m, ts.False})
			return Tuple{m, Iface{}}
		}
		m := p.newInput("re.match", BoolSort)
		e := p.newInput("re.err", BoolSort)
		p.logs["re"] = append(p.logs["re"], Tuple{pat, sub, m, e})
		if p.Branch(e) {
			return Tuple{ts.False, p.errorValue(p.e.strOf("regexp: compile error (stub)"))}
		}
		return Tuple{m, Iface{}}
	}
	intrinsics["vfMatchCount"] = func(p *Path, fr *frame, a []Value) Value {
		return p.e.ts.BV(64, uint64(len(p.logs["re"])))
	}
	reField := func(k int) extFn {
		return func(p *Path, fr *frame, a []Value) Value {
			return p.logs["re"][concInt(a[0])].(Tuple)[k]
		}
	}
	intrinsics["vfMatchExpr"] = reField(0)
	intrinsics["vfMatchSubject"] = reField(1)
	intrinsics["vfMatchResult"] = reField(2)
	intrinsics["vfMatchErr"] = reField(3)
}

// memberlist lifecycle calls: recorded, arbitrary results (err symbolic; Join count symbolic >= 0)
func init() {
	ml := "(*github.com/hashicorp/memberlist.Memberlist)."
	symErr := func(p *Path, what string) Value {
		e := p.newInput("ml."+what+".err", BoolSort)
		if p.Branch(e) {
			return p.errorValue(p.e.strOf("memberlist " + what + " failed (stub)"))
		}
		return Iface{}
	}
	externals[ml+"Join"] = func(p *Path, fr *frame, a []Value) Value {
		p.yield(fr, nil, "ml.Join")
		p.logs["ml.Join"] = append(p.logs["ml.Join"], a[1])
		ts := p.e.ts
		n := p.newInput("ml.Join.n", BVSort(64))
		p.assumeQuiet(ts.And(ts.BVCmp("bvsge", n, ts.BV(64, 0)), ts.BVCmp("bvsle", n, ts.BV(64, 8))))
		return Tuple{n, symErr(p, "Join")}
	}
	externals[ml+"Leave"] = func(p *Path, fr *frame, a []Value) Value {
		p.yield(fr, nil, "ml.Leave")
		p.logs["ml.Leave"] = append(p.logs["ml.Leave"], a[1])
		return symErr(p, "Leave")
	}
	externals[ml+"Shutdown"] = func(p *Path, fr *frame, a []Value) Value {
		p.yield(fr, nil, "ml.Shutdown")
		p.logs["ml.Shutdown"] = append(p.logs["ml.Shutdown"], p.e.ts.True)
		return symErr(p, "Shutdown")
	}
	intrinsics["vfStubCalls"] = func(p *Path, fr *frame, a []Value) Value {
		return p.e.ts.BV(64, uint64(len(p.logs["ml."+concStr(a[0])])))
	}
}

// vfDecodeOpaque(buf, &out): identity decoding of an opaque encoded buffer (engine only).
func init() {
	intrinsics["vfDecodeOpaque"] = func(p *Path, fr *frame, a []Value) Value {
		ob, ok := a[0].(*OpaqueBytes)
		out := a[1].(Iface)
		if !ok || ob.tok < 0 || ob.tok >= len(p.tokens) {
			return p.e.ts.False
		}
		tok := p.tokens[ob.tok]
		pt, isPtr := out.T.Underlying().(*types.Pointer)
		if !isPtr || !types.Identical(pt.Elem(), tok.typ) {
			return p.e.ts.False
		}
		storeInPlace(out.V.(Ptr), deepCopy(tok.val, map[Ptr]Ptr{}))
		return p.e.ts.True
	}
}

func init() {
	// vfMlFaults: memberlist.UpdateNode may fail from now on
	intrinsics["vfMlFaults"] = func(p *Path, fr *frame, a []Value) Value { p.ghost["mlFaults"] = true; return nil }
	// vfOpaqueBytes(name): a byte slice of arbitrary symbolic length in [0, 2^24] whose content is never inspected
	intrinsics["vfOpaqueBytes"] = func(p *Path, fr *frame, a []Value) Value {
		ts := p.e.ts
		l := p.newInput(concStr(a[0]), BVSort(64))
		p.assumeQuiet(ts.And(ts.BVCmp("bvsge", l, ts.BV(64, 0)), ts.BVCmp("bvsle", l, ts.BV(64, 1<<24))))
		return &OpaqueBytes{length: l, tok: -1}
	}
}

func init() {
	rf := func(p *Path, fr *frame, a []Value) Value {
		ts := p.e.ts
		x := p.newFPInput("rand.float")
		p.assumeQuiet(ts.And(ts.FPCmp("fp.geq", x, ts.FP(64, 0)), ts.FPCmp("fp.lt", x, ts.FP(64, 1))))
		return x
	}
	externals["math/rand.Float64"] = rf
	externals["(*math/rand.Rand).Float64"] = rf
}
