package main

// Engine threads (goroutines of the program under test), scheduling points,
// mutexes, wait groups, channels, select and timers.

import (
	"fmt"
	"go/types"
	"strings"

	"golang.org/x/tools/go/ssa"
)

type Thread struct {
	id      int
	name    string
	fn      Value
	args    []Value
	wake    chan struct{}
	started bool
	exited  bool
	blocked func() bool // non-nil while blocked; returns true when it may proceed
	onStart func()
	p       *Path
}

type mutexState struct {
	writer  *Thread
	readers map[*Thread]int
}

type wgState struct{ n int }

func (p *Path) newThread(name string, fn Value, args []Value) *Thread {
	th := &Thread{id: len(p.threads), name: name, fn: fn, args: args, wake: make(chan struct{}, 1), p: p}
	p.threads = append(p.threads, th)
	return th
}

func (p *Path) startThread(th *Thread, isMain bool) {
	th.started = true
	p.wg.Add(1)
	go func() {
		defer p.wg.Done()
		<-th.wake
		if p.aborting {
			th.exited = true
			return
		}
		defer func() {
			r := recover()
			th.exited = true
			p.handleTop(th, r)
			if r == nil && th.id != 0 && !p.aborting {
				// thread finished normally: hand the baton to someone else
				func() {
					defer func() {
						if r2 := recover(); r2 != nil {
							p.handleTop(th, r2)
						}
					}()
					p.cur = nil
					p.handover(nil, nil)
				}()
			}
		}()
		p.cur = th
		th.blocked = nil
		if th.onStart != nil {
			th.onStart()
		}
		p.call(nil, 0, th.fn, th.args)
	}()
}

// enabled lists threads that can run now.
func (p *Path) enabled() []*Thread {
	var r []*Thread
	for _, th := range p.threads {
		if !th.started || th.exited {
			continue
		}
		if th.blocked != nil {
			if !th.blocked() {
				continue
			}
		}
		r = append(r, th)
	}
	return r
}

// switchTo passes the baton from the current goroutine (thread from, may be nil if exiting) to th.
func (p *Path) switchTo(from, th *Thread) {
	p.cur = th
	p.sched = append(p.sched, fmt.Sprintf("t%d", th.id))
	th.wake <- struct{}{}
	if from == nil {
		return
	}
	<-from.wake
	if p.aborting {
		panic(pathEnd{"stop", "path aborted"})
	}
	p.cur = from
}

// handover is called when the current thread cannot continue (blocked or exited).
func (p *Path) handover(from *Thread, fr *frame) {
	en := p.enabled()
	if len(en) == 0 {
		// nobody can run
		what := "all threads blocked"
		panic(pathEnd{"deadlock", what})
	}
	k := p.decide(len(en), "sched")
	p.switchTo(from, en[k])
}

// block parks the current thread until cond() holds.
func (p *Path) block(fr *frame, instr ssa.Instruction, what string, cond func() bool) {
	th := p.cur
	for !cond() {
		if !p.cfg.Sched {
			pos := ""
			if fr != nil && instr != nil {
				pos = fr.pos(instr)
			}
			panic(pathEnd{"deadlock", "blocking " + what + " at " + pos + " in sequential mode"})
		}
		th.blocked = cond
		en := p.enabled()
		// th itself is not enabled since cond() is false
		if len(en) == 0 {
			th.blocked = nil
			pos := ""
			if fr != nil && instr != nil {
				pos = fr.pos(instr)
			}
			panic(pathEnd{"deadlock", fmt.Sprintf("thread %s blocked on %s at %s and no other thread can run", th.name, what, pos)})
		}
		k := p.decide(len(en), "sched")
		p.switchTo(th, en[k])
		th.blocked = nil
	}
}

// yield is a scheduling point: another enabled thread may be chosen (pre-emption).
func (p *Path) yield(fr *frame, instr ssa.Instruction, what string) {
	if !p.cfg.Sched || len(p.threads) < 2 {
		return
	}
	th := p.cur
	if p.switches >= p.cfg.Switches {
		return
	}
	if strings.HasPrefix(what, "quiet.") {
		return
	}
	for _, k := range p.cfg.NoYield {
		if strings.HasPrefix(what, k) {
			return
		}
	}
	en := p.enabled()
	var others []*Thread
	for _, o := range en {
		if o != th {
			others = append(others, o)
		}
	}
	if len(others) == 0 {
		return
	}
	k := p.decide(len(others)+1, "yield")
	if k == 0 {
		return
	}
	p.switches++
	p.switchTo(th, others[k-1])
}

func (p *Path) spawn(fr *frame, instr ssa.Instruction, fn Value, args []Value) {
	name := "go@" + fr.pos(instr)
	if !p.cfg.Sched {
		p.spawned = append(p.spawned, &spawnRec{fn: fn, args: args, pos: fr.pos(instr), name: calleeName(fn)})
		return
	}
	th := p.newThread(name, fn, args)
	p.startThread(th, false)
	p.yield(fr, instr, "go")
}

func calleeName(fn Value) string {
	switch f := fn.(type) {
	case *ssa.Function:
		return f.String()
	case *Closure:
		return f.Fn.String()
	}
	return "?"
}

// waitOthers blocks the calling thread until all other threads have exited or are blocked forever.
func (p *Path) waitOthers(fr *frame) {
	if !p.cfg.Sched {
		return
	}
	th := p.cur
	for {
		en := p.enabled()
		var others []*Thread
		for _, o := range en {
			if o != th {
				others = append(others, o)
			}
		}
		if len(others) == 0 {
			return
		}
		k := p.decide(len(others), "sched")
		p.switchTo(th, others[k])
	}
}

// ---- mutexes ----

func (p *Path) mutex(addr Ptr) *mutexState {
	m := p.mutexes[addr]
	if m == nil {
		m = &mutexState{readers: map[*Thread]int{}}
		p.mutexes[addr] = m
	}
	return m
}

// muKind prefixes the scheduling-point kind of a mutex the harness declared quiet
// (its critical sections commute with everything the property observes).
func (p *Path) muKind(addr Ptr, kind string) string {
	if p.quietMu != nil && p.quietMu[addr] {
		return "quiet." + kind
	}
	return kind
}

func (p *Path) mutexLock(fr *frame, addr Ptr) {
	if addr == nil {
		panic(targetPanic{msg: "runtime error: invalid memory address or nil pointer dereference (nil mutex)"})
	}
	p.yield(fr, nil, p.muKind(addr, "lock"))
	m := p.mutex(addr)
	p.block(fr, nil, "mutex lock", func() bool { return m.writer == nil && len(m.readers) == 0 })
	m.writer = p.cur
}

func (p *Path) mutexTryLock(fr *frame, addr Ptr) bool {
	p.yield(fr, nil, p.muKind(addr, "trylock"))
	m := p.mutex(addr)
	if m.writer == nil && len(m.readers) == 0 {
		m.writer = p.cur
		return true
	}
	return false
}

func (p *Path) mutexUnlock(fr *frame, addr Ptr) {
	m := p.mutex(addr)
	if m.writer == nil {
		panic(targetPanic{msg: "fatal error: sync: unlock of unlocked mutex"})
	}
	m.writer = nil
	p.yield(fr, nil, p.muKind(addr, "unlock"))
}

func (p *Path) mutexRLock(fr *frame, addr Ptr) {
	p.yield(fr, nil, p.muKind(addr, "rlock"))
	m := p.mutex(addr)
	p.block(fr, nil, "rwmutex rlock", func() bool { return m.writer == nil })
	m.readers[p.cur]++
}

func (p *Path) mutexRUnlock(fr *frame, addr Ptr) {
	m := p.mutex(addr)
	if m.readers[p.cur] == 0 {
		// Go allows RUnlock from another goroutine; accept any reader
		found := false
		for th, n := range m.readers {
			if n > 0 {
				m.readers[th]--
				if m.readers[th] == 0 {
					delete(m.readers, th)
				}
				found = true
				break
			}
		}
		if !found {
			panic(targetPanic{msg: "fatal error: sync: RUnlock of unlocked RWMutex"})
		}
	} else {
		m.readers[p.cur]--
		if m.readers[p.cur] == 0 {
			delete(m.readers, p.cur)
		}
	}
	p.yield(fr, nil, p.muKind(addr, "runlock"))
}

// ---- channels ----

func (p *Path) chanSend(fr *frame, instr ssa.Instruction, ch *Chan, v Value) {
	p.yield(fr, instr, "send")
	if ch == nil {
		p.block(fr, instr, "send on nil channel", func() bool { return false })
	}
	if ch.closed {
		panic(targetPanic{msg: "send on closed channel", pos: posOf(fr, instr)})
	}
	v = copyVal(v)
	if ch.cap > 0 {
		p.block(fr, instr, "send on full channel "+ch.name, func() bool { return ch.closed || len(ch.buf) < ch.cap })
		if ch.closed {
			panic(targetPanic{msg: "send on closed channel", pos: posOf(fr, instr)})
		}
		ch.buf = append(ch.buf, v)
		return
	}
	// unbuffered: park the value, wait until a receiver takes it
	p.block(fr, instr, "send on unbuffered channel "+ch.name, func() bool { return ch.closed || len(ch.buf) == 0 })
	if ch.closed {
		panic(targetPanic{msg: "send on closed channel", pos: posOf(fr, instr)})
	}
	item := &v
	ch.buf = append(ch.buf, item)
	p.block(fr, instr, "rendezvous on unbuffered channel "+ch.name, func() bool {
		for _, b := range ch.buf {
			if b == Value(item) {
				return ch.closed
			}
		}
		return true
	})
	for _, b := range ch.buf {
		if b == Value(item) {
			panic(targetPanic{msg: "send on closed channel", pos: posOf(fr, instr)})
		}
	}
}

func posOf(fr *frame, instr ssa.Instruction) string {
	if fr == nil || instr == nil {
		return ""
	}
	return fr.pos(instr)
}

func (ch *Chan) take() Value {
	v := ch.buf[0]
	ch.buf = ch.buf[1:]
	if len(ch.buf) == 0 {
		ch.handoff = false
	}
	if ch.cap == 0 {
		return *(v.(*Value))
	}
	return v
}

func (p *Path) chanRecv(fr *frame, instr ssa.Instruction, ch *Chan) (Value, bool) {
	p.yield(fr, instr, "recv")
	if ch == nil {
		p.block(fr, instr, "receive from nil channel", func() bool { return false })
	}
	if ch.timer != nil {
		p.timerRecvReady(fr, instr, ch, true)
	}
	ch.recvWaiting++
	p.block(fr, instr, "receive on empty channel "+ch.name, func() bool { return len(ch.buf) > 0 || ch.closed })
	ch.recvWaiting--
	if len(ch.buf) > 0 {
		return ch.take(), true
	}
	return p.e.zero(ch.et), false
}

func (p *Path) chanClose(fr *frame, ch *Chan) {
	if ch == nil {
		panic(targetPanic{msg: "close of nil channel"})
	}
	if ch.closed {
		panic(targetPanic{msg: "close of closed channel"})
	}
	ch.closed = true
	if ch.cap == 0 && len(ch.buf) > 0 {
		// parked senders will panic when they resume
	}
	p.yield(fr, nil, "close")
}

// timers: a timer channel may "fire" at any scheduling decision.
type timerState struct {
	fired    bool
	periodic bool
	stopped  bool
	fires    int // how often a periodic timer has fired (bounded by Config.MaxTicks)
}

// fireable: the timer can still fire (one-shot: not fired yet; ticker: below the bound).
func (t *timerState) fireable(maxTicks int) bool {
	if t.stopped {
		return false
	}
	if t.periodic {
		return t.fires < maxTicks
	}
	return !t.fired
}

// timerRecvReady decides (symbolically free choice) whether the timer has fired by now.
// If must is true the caller is about to block on it alone, so time passes until it fires.
func (p *Path) timerRecvReady(fr *frame, instr ssa.Instruction, ch *Chan, must bool) bool {
	t := ch.timer
	if t.stopped {
		return len(ch.buf) > 0
	}
	if len(ch.buf) > 0 {
		return true
	}
	if t.fired && !t.periodic {
		return false
	}
	if t.periodic && t.fires >= p.cfg.MaxTicks {
		return false // bound on ticker firings (stated in the evidence)
	}
	fire := must
	if !must {
		fire = p.decide(2, "timer") == 1
	}
	if fire {
		t.fired = true
		t.fires++
		ch.buf = append(ch.buf, p.zeroTime())
		return true
	}
	return false
}

func (p *Path) selectOp(fr *frame, instr *ssa.Select) Value {
	ts := p.e.ts
	// a select inside a loop is a loop head without a symbolic branch: bound its unwinding too
	if fr.visits == nil {
		fr.visits = map[*ssa.BasicBlock]int{}
	}
	fr.visits[instr.Block()]++
	if fr.visits[instr.Block()] > p.cfg.Unwind {
		panic(pathEnd{"unwind", fmt.Sprintf("unwinding bound %d exceeded at select %s", p.cfg.Unwind, fr.pos(instr))})
	}
	p.yield(fr, instr, "select")
	type cs struct {
		ch   *Chan
		send bool
		val  Value
	}
	var cases []cs
	for _, st := range instr.States {
		c := cs{ch: fr.get(st.Chan).(*Chan), send: st.Dir == types.SendOnly}
		if c.send {
			c.val = fr.get(st.Send)
		}
		cases = append(cases, c)
	}
	ready := func() []int {
		var r []int
		// a sender has already completed a rendezvous on one of our unbuffered channels
		// (it chose us while we were blocked here): that case is the one that fires
		for i, c := range cases {
			if c.ch != nil && !c.send && c.ch.cap == 0 && c.ch.handoff && len(c.ch.buf) > 0 {
				return []int{i}
			}
		}
		for i, c := range cases {
			if c.ch == nil {
				continue
			}
			if c.send {
				if c.ch.closed {
					r = append(r, i)
				} else if c.ch.cap > 0 && len(c.ch.buf) < c.ch.cap {
					r = append(r, i)
				} else if c.ch.cap == 0 && len(c.ch.buf) == 0 && c.ch.recvWaiting > 0 {
					r = append(r, i)
				}
			} else {
				if len(c.ch.buf) > 0 || c.ch.closed {
					r = append(r, i)
				}
			}
		}
		return r
	}
	// timers among the receive cases may fire now (free choice each). With lazy timers
	// (//vf:lazytimers) time only passes while the select would block: a timer firing
	// between two queued inputs is the same run as the producer pausing between them.
	if !p.cfg.LazyTimers {
		for _, c := range cases {
			if !c.send && c.ch != nil && c.ch.timer != nil {
				p.timerRecvReady(fr, instr, c.ch, false)
			}
		}
	}
	rd := ready()
	chosen := -1
	if len(rd) == 0 && instr.Blocking && p.cfg.LazyTimers && p.cfg.Sched {
		// lazy timers: nothing is ready. Either time passes (one pending timer fires) or
		// another thread runs first - ONE decision per idle period instead of one per timer.
		for _, c := range cases {
			if !c.send && c.ch != nil {
				c.ch.recvWaiting++
			}
		}
		for len(rd) == 0 {
			var tc []*Chan
			for _, c := range cases {
				if !c.send && c.ch != nil && c.ch.timer != nil && c.ch.timer.fireable(p.cfg.MaxTicks) {
					tc = append(tc, c.ch)
				}
			}
			others := p.enabledOthers()
			if len(tc) == 0 {
				p.block(fr, instr, "select", func() bool { return len(ready()) > 0 })
				rd = ready()
				break
			}
			if len(others) == 0 || p.decide(2, "timer-or-wait") == 0 {
				k := p.decide(len(tc), "timer-first")
				p.timerRecvReady(fr, instr, tc[k], true)
				rd = ready()
				break
			}
			// let another thread run; we stay runnable (a timer can still fire later)
			k := p.decide(len(others), "sched")
			p.switchTo(p.cur, others[k])
			rd = ready()
		}
		for _, c := range cases {
			if !c.send && c.ch != nil {
				c.ch.recvWaiting--
			}
		}
	}
	if len(rd) == 0 {
		if !instr.Blocking {
			chosen = -1
		} else {
			// if only timers could wake us, let time pass; otherwise block
			for _, c := range cases {
				if !c.send && c.ch != nil {
					c.ch.recvWaiting++
				}
			}
			hasTimer := false
			for _, c := range cases {
				if !c.send && c.ch != nil && c.ch.timer != nil && c.ch.timer.fireable(p.cfg.MaxTicks) {
					hasTimer = true
				}
			}
			if hasTimer && (!p.cfg.Sched || len(p.enabledOthers()) == 0) {
				// nothing else can happen: the earliest timer fires
				var tc []*Chan
				for _, c := range cases {
					if !c.send && c.ch != nil && c.ch.timer != nil && c.ch.timer.fireable(p.cfg.MaxTicks) {
						tc = append(tc, c.ch)
					}
				}
				k := p.decide(len(tc), "timer-first")
				p.timerRecvReady(fr, instr, tc[k], true)
			} else {
				p.block(fr, instr, "select", func() bool {
					if len(ready()) > 0 {
						return true
					}
					// a pending timer among the cases can fire at any moment
					for _, c := range cases {
						if !c.send && c.ch != nil && c.ch.timer != nil && c.ch.timer.fireable(p.cfg.MaxTicks) {
							return true
						}
					}
					return false
				})
			}
			for _, c := range cases {
				if !c.send && c.ch != nil {
					c.ch.recvWaiting--
				}
			}
			rd = ready()
			if len(rd) == 0 {
				// woken because a timer may fire: let one fire
				var tc []*Chan
				for _, c := range cases {
					if !c.send && c.ch != nil && c.ch.timer != nil && c.ch.timer.fireable(p.cfg.MaxTicks) {
						tc = append(tc, c.ch)
					}
				}
				if len(tc) == 0 {
					panic(pathEnd{"deadlock", "select blocked forever at " + fr.pos(instr)})
				}
				k := p.decide(len(tc), "timer-first")
				p.timerRecvReady(fr, instr, tc[k], true)
				rd = ready()
			}
		}
	}
	if len(rd) > 0 {
		chosen = rd[p.decide(len(rd), "select")]
	}
	r := Tuple{ts.BV(64, uint64(int64(chosen))), ts.False}
	var recvOk bool
	var recvd Value
	if chosen >= 0 {
		c := cases[chosen]
		if c.send {
			if c.ch.closed {
				panic(targetPanic{msg: "send on closed channel", pos: fr.pos(instr)})
			}
			if c.ch.cap > 0 {
				c.ch.buf = append(c.ch.buf, copyVal(c.val))
			} else {
				// rendezvous: a receiver is blocked on this channel; it is committed to this
				// value, and the sender continues only after the value has been taken
				v := copyVal(c.val)
				item := &v
				c.ch.buf = append(c.ch.buf, item)
				c.ch.handoff = true
				ch := c.ch
				p.block(fr, instr, "rendezvous (select send) on "+ch.name, func() bool {
					for _, b := range ch.buf {
						if b == Value(item) {
							return ch.closed
						}
					}
					return true
				})
			}
		} else {
			if len(c.ch.buf) > 0 {
				recvd, recvOk = c.ch.take(), true
			} else {
				recvd, recvOk = p.e.zero(c.ch.et), false
			}
		}
	}
	r[1] = ts.Bool(recvOk)
	for i, st := range instr.States {
		if st.Dir == types.RecvOnly {
			if i == chosen {
				r = append(r, recvd)
			} else {
				r = append(r, p.e.zero(st.Chan.Type().Underlying().(*types.Chan).Elem()))
			}
		}
	}
	return r
}

func (p *Path) enabledOthers() []*Thread {
	var r []*Thread
	for _, th := range p.enabled() {
		if th != p.cur {
			r = append(r, th)
		}
	}
	return r
}
