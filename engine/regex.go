package main

import "regexp"

func regexpMatchString(pat, s string) (bool, error) { return regexp.MatchString(pat, s) }
