package main

// Model of package regexp.
//
// Patterns are concrete strings (they are compiled by Go's own regexp/syntax,
// so the pattern semantics are the real ones). Subjects may have symbolic
// bytes: MatchString is then encoded exactly, as the Bool term "the compiled
// NFA (regexp/syntax.Prog) accepts", by simulating the program over the
// fixed-length byte sequence with one Bool term per (position, instruction).
// Subjects are restricted to ASCII (bytes < 0x80, assumed on the path), where a
// byte is a rune. Symbolic *patterns* fall back to an uninterpreted outcome.

import (
	"fmt"
	"net"
	"regexp"
	"regexp/syntax"
	"unicode"
)

func regexpMatchString(pat, s string) (bool, error) { return regexp.MatchString(pat, s) }

// reObj is what a *regexp.Regexp points to in the engine.
type reObj struct {
	pat  string
	re   *regexp.Regexp
	prog *syntax.Prog
}

func compileRe(pat string) (*reObj, error) {
	re, err := regexp.Compile(pat)
	if err != nil {
		return nil, err
	}
	rx, err := syntax.Parse(pat, syntax.Perl)
	if err != nil {
		return nil, err
	}
	prog, err := syntax.Compile(rx.Simplify())
	if err != nil {
		return nil, err
	}
	return &reObj{pat: pat, re: re, prog: prog}, nil
}

func reOf(v Value) *reObj {
	ptr, ok := v.(Ptr)
	if !ok || ptr == nil {
		panic(targetPanic{msg: "runtime error: invalid memory address or nil pointer dereference (nil *regexp.Regexp)"})
	}
	ro, ok := (*ptr).(*reObj)
	if !ok {
		panic(engineError("regexp object of unknown origin"))
	}
	return ro
}

// matchTerm: Bool term for "prog matches somewhere in b" (unanchored search, leftmost semantics irrelevant for a yes/no answer).
func (p *Path) matchTerm(ro *reObj, b []*Term) *Term {
	ts := p.e.ts
	prog := ro.prog
	n := len(b)
	ni := len(prog.Inst)
	// ASCII restriction
	for _, t := range b {
		if !t.isConst {
			p.assumeQuiet(ts.BVCmp("bvult", t, ts.BV(8, 0x80)))
		} else if t.u >= 0x80 {
			panic(engineError("regexp subject with non-ASCII byte"))
		}
	}
	isWord := func(t *Term) *Term {
		r := ts.False
		rg := func(lo, hi byte) *Term {
			return ts.And(ts.BVCmp("bvuge", t, ts.BV(8, uint64(lo))), ts.BVCmp("bvule", t, ts.BV(8, uint64(hi))))
		}
		r = ts.Or(r, rg('a', 'z'))
		r = ts.Or(r, rg('A', 'Z'))
		r = ts.Or(r, rg('0', '9'))
		r = ts.Or(r, ts.Eq(t, ts.BV(8, '_')))
		return r
	}
	// emptyCond(pos, op): condition under which the empty-width assertions op hold at pos
	emptyCond := func(pos int, op syntax.EmptyOp) *Term {
		c := ts.True
		if op&syntax.EmptyBeginText != 0 && pos != 0 {
			return ts.False
		}
		if op&syntax.EmptyEndText != 0 && pos != n {
			return ts.False
		}
		if op&syntax.EmptyBeginLine != 0 && pos != 0 {
			c = ts.And(c, ts.Eq(b[pos-1], ts.BV(8, '\n')))
		}
		if op&syntax.EmptyEndLine != 0 && pos != n {
			c = ts.And(c, ts.Eq(b[pos], ts.BV(8, '\n')))
		}
		if op&(syntax.EmptyWordBoundary|syntax.EmptyNoWordBoundary) != 0 {
			before, after := ts.False, ts.False
			if pos > 0 {
				before = isWord(b[pos-1])
			}
			if pos < n {
				after = isWord(b[pos])
			}
			boundary := ts.Not(ts.Eq(before, after))
			if op&syntax.EmptyWordBoundary != 0 {
				c = ts.And(c, boundary)
			}
			if op&syntax.EmptyNoWordBoundary != 0 {
				c = ts.And(c, ts.Not(boundary))
			}
		}
		return c
	}
	runeCond := func(in *syntax.Inst, t *Term) *Term {
		switch in.Op {
		case syntax.InstRuneAny:
			return ts.True
		case syntax.InstRuneAnyNotNL:
			return ts.Not(ts.Eq(t, ts.BV(8, '\n')))
		}
		fold := syntax.Flags(in.Arg)&syntax.FoldCase != 0
		one := func(lo, hi rune) *Term {
			if lo > 0x7f {
				return ts.False
			}
			if hi > 0x7f {
				hi = 0x7f
			}
			return ts.And(ts.BVCmp("bvuge", t, ts.BV(8, uint64(lo))), ts.BVCmp("bvule", t, ts.BV(8, uint64(hi))))
		}
		r := ts.False
		if len(in.Rune) == 1 {
			r0 := in.Rune[0]
			r = one(r0, r0)
			if fold {
				for r1 := unicode.SimpleFold(r0); r1 != r0; r1 = unicode.SimpleFold(r1) {
					r = ts.Or(r, one(r1, r1))
				}
			}
			return r
		}
		for i := 0; i+1 < len(in.Rune); i += 2 {
			r = ts.Or(r, one(in.Rune[i], in.Rune[i+1]))
		}
		return r
	}
	// reach[pc]: Bool term, thread at pc is alive at the current position (after epsilon closure)
	matched := ts.False
	var addClosure func(reach []*Term, pos int, pc uint32, c *Term, depth int)
	addClosure = func(reach []*Term, pos int, pc uint32, c *Term, depth int) {
		if c.IsFalse() || depth > 4*ni+8 {
			return
		}
		in := &prog.Inst[pc]
		switch in.Op {
		case syntax.InstAlt, syntax.InstAltMatch:
			addClosure(reach, pos, in.Out, c, depth+1)
			addClosure(reach, pos, in.Arg, c, depth+1)
		case syntax.InstCapture, syntax.InstNop:
			addClosure(reach, pos, in.Out, c, depth+1)
		case syntax.InstEmptyWidth:
			addClosure(reach, pos, in.Out, ts.And(c, emptyCond(pos, syntax.EmptyOp(in.Arg))), depth+1)
		case syntax.InstFail:
		default: // Match, Rune*: real states
			reach[pc] = ts.Or(reach[pc], c)
		}
	}
	cur := make([]*Term, ni)
	for pos := 0; pos <= n; pos++ {
		next := make([]*Term, ni)
		for i := range next {
			next[i] = ts.False
		}
		if pos == 0 {
			for i := range cur {
				cur[i] = ts.False
			}
		}
		// a new attempt may start at every position (unanchored search)
		addClosure(cur, pos, uint32(prog.Start), ts.True, 0)
		for pc := 0; pc < ni; pc++ {
			c := cur[pc]
			if c.IsFalse() {
				continue
			}
			in := &prog.Inst[pc]
			switch in.Op {
			case syntax.InstMatch:
				matched = ts.Or(matched, c)
			case syntax.InstRune, syntax.InstRune1, syntax.InstRuneAny, syntax.InstRuneAnyNotNL:
				if pos < n {
					addClosure(next, pos+1, in.Out, ts.And(c, runeCond(in, b[pos])), 0)
				}
			}
		}
		cur = next
	}
	return matched
}

func init() {
	newRe := func(p *Path, ro *reObj) Value {
		cell := new(Value)
		*cell = ro
		return Ptr(cell)
	}
	externals["regexp.Compile"] = func(p *Path, fr *frame, a []Value) Value {
		pat := a[0].(*Str)
		cp, ok := pat.Concrete()
		if !ok || pat.opaque {
			panic(engineError("regexp.Compile of a symbolic pattern (patterns must be concrete; subjects may be symbolic)"))
		}
		ro, err := compileRe(cp)
		if err != nil {
			return Tuple{nilPtr, p.errorValue(p.e.strOf(err.Error()))}
		}
		return Tuple{newRe(p, ro), Iface{}}
	}
	externals["regexp.MustCompile"] = func(p *Path, fr *frame, a []Value) Value {
		pat := a[0].(*Str)
		cp, ok := pat.Concrete()
		if !ok {
			panic(engineError("regexp.MustCompile of a symbolic pattern"))
		}
		ro, err := compileRe(cp)
		if err != nil {
			panic(targetPanic{msg: "regexp: Compile(" + cp + "): " + err.Error()})
		}
		return newRe(p, ro)
	}
	externals["(*regexp.Regexp).MatchString"] = func(p *Path, fr *frame, a []Value) Value {
		ro := reOf(a[0])
		s := a[1].(*Str)
		if s.opaque {
			panic(engineError("regexp match on opaque string"))
		}
		if cs, ok := s.Concrete(); ok {
			return p.e.ts.Bool(ro.re.MatchString(cs))
		}
		p.encoded["regexp NFA "+fmt.Sprintf("%q", ro.pat)]++
		return p.matchTerm(ro, s.b)
	}
	externals["(*regexp.Regexp).String"] = func(p *Path, fr *frame, a []Value) Value {
		return p.e.strOf(reOf(a[0]).pat)
	}
	externals["(*regexp.Regexp).ReplaceAllString"] = func(p *Path, fr *frame, a []Value) Value {
		ro := reOf(a[0])
		src, ok1 := a[1].(*Str).Concrete()
		repl, ok2 := a[2].(*Str).Concrete()
		if !ok1 || !ok2 {
			panic(engineError("regexp.ReplaceAllString on symbolic strings is not modelled"))
		}
		return p.e.strOf(ro.re.ReplaceAllString(src, repl))
	}
}

func netIPString(b []byte) string { return net.IP(b).String() }
