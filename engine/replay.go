package main

// Native replay of witnesses and counterexamples through `go test -overlay`.

import (
	"encoding/json"
	"fmt"
	"os"
	"os/exec"
	"path/filepath"
	"sort"
	"strings"
	"time"
)

type Vector struct {
	Harness string            `json:"harness"`
	Kind    string            `json:"kind"` // witness | violation | known
	ID      string            `json:"id"`
	Inputs  map[string]string `json:"inputs"`
	Msg     string            `json:"msg,omitempty"`
	Known   string            `json:"known,omitempty"`
	file    string
	hit     *Hit
	run     *HarnessRun
}

type NativeOut struct {
	Reached      []string `json:"reached"`
	Failed       []string `json:"failed"`
	Passed       []string `json:"passed"`
	Panic        string   `json:"panic"`
	AssumeFailed bool     `json:"assume_failed"`
	Timeout      bool     `json:"timeout"`
}

func modelStrings(m map[string]uint64) map[string]string {
	r := map[string]string{}
	for k, v := range m {
		r[k] = fmt.Sprintf("%d", v)
	}
	return r
}

const replayTestSrc = `//go:build verif

package PKG

import (
	"encoding/json"
	"os"
	"path/filepath"
	"sort"
	"strings"
	"testing"
	"time"
	"fmt"
)

func TestVfReplay(t *testing.T) {
	dir := os.Getenv("VF_REPLAY_DIR")
	files, _ := filepath.Glob(filepath.Join(dir, "*.vec.json"))
	sort.Strings(files)
	for _, f := range files {
		b, err := os.ReadFile(f)
		if err != nil {
			t.Fatal(err)
		}
		var v struct {
			Harness string            ` + "`json:\"harness\"`" + `
			Inputs  map[string]string ` + "`json:\"inputs\"`" + `
		}
		if err := json.Unmarshal(b, &v); err != nil {
			t.Fatal(err)
		}
		fn := vfRegistry[v.Harness]
		out := map[string]interface{}{}
		if fn == nil {
			out["panic"] = "no such harness"
		} else {
			vfResetNative(v.Inputs)
			done := make(chan string, 1)
			go func() {
				defer func() {
					if r := recover(); r != nil {
						if _, ok := r.(vfStop); ok {
							done <- ""
							return
						}
						done <- "panic: " + strings.TrimSpace(fmt.Sprint(r))
						return
					}
					done <- ""
				}()
				fn()
			}()
			select {
			case msg := <-done:
				out["panic"] = msg
			case <-time.After(20 * time.Second):
				out["timeout"] = true
			}
			st := vfNativeState()
			out["reached"] = st.reached
			out["failed"] = st.failed
			out["passed"] = st.passed
			out["assume_failed"] = st.assumeFailed
		}
		ob, _ := json.Marshal(out)
		os.WriteFile(strings.TrimSuffix(f, ".vec.json")+".out.json", ob, 0644)
	}
}
`

func nativeReplay(pr *Program, pkgKey, prop string, runs []*HarnessRun, rep *Report) {
	var vecs []*Vector
	for _, h := range runs {
		if h.cfg.NoNative {
			continue
		}
		ids := make([]string, 0, len(h.Witnesses))
		for id := range h.Witnesses {
			ids = append(ids, id)
		}
		sort.Strings(ids)
		// one witness vector per distinct model (several ids often share a path)
		seen := map[string]*Vector{}
		for _, id := range ids {
			w := h.Witnesses[id]
			key := fmt.Sprint(modelStrings(w.Model))
			if v, ok := seen[key]; ok {
				v.ID += "," + id
				continue
			}
			v := &Vector{Harness: h.Name, Kind: "witness", ID: id, Inputs: modelStrings(w.Model), run: h}
			seen[key] = v
			vecs = append(vecs, v)
		}
		for i := range h.Hits {
			hit := &h.Hits[i]
			if hit.Kind != "violation" && hit.Kind != "known" {
				continue
			}
			vecs = append(vecs, &Vector{Harness: h.Name, Kind: hit.Kind, ID: hit.ID, Inputs: modelStrings(hit.Model), Msg: hit.Msg, Known: hit.Known, hit: hit, run: h})
		}
	}
	if len(vecs) == 0 {
		return
	}
	t0 := time.Now()
	outDir := filepath.Join(replayRoot(), prop)
	os.MkdirAll(outDir, 0755)
	// clear old vectors for the harnesses we ran
	old, _ := filepath.Glob(filepath.Join(outDir, "*.json"))
	for _, f := range old {
		for _, h := range runs {
			if strings.HasPrefix(filepath.Base(f), h.Name+"-") {
				os.Remove(f)
			}
		}
	}
	for i, v := range vecs {
		v.file = filepath.Join(outDir, fmt.Sprintf("%s-%s-%03d.vec.json", v.Harness, v.Kind, i))
		b, _ := json.MarshalIndent(v, "", " ")
		os.WriteFile(v.file, b, 0644)
	}
	tmp, err := os.MkdirTemp("", "verif-replay-")
	if err != nil {
		rep.Fatal = append(rep.Fatal, "mktemp: "+err.Error())
		return
	}
	defer os.RemoveAll(tmp)
	pkgName := pr.target.Pkg.Name()
	// registry
	var sb strings.Builder
	sb.WriteString("//go:build verif\n\npackage " + pkgName + "\n\nvar vfRegistry = map[string]func(){\n")
	names := map[string]bool{}
	for _, h := range runs {
		names[h.Name] = true
	}
	for _, n := range sortedBoolKeys(names) {
		fmt.Fprintf(&sb, "\t%q: %s,\n", n, n)
	}
	sb.WriteString("}\n")
	regFile := filepath.Join(tmp, "zz_verif_registry.go")
	os.WriteFile(regFile, []byte(sb.String()), 0644)
	testFile := filepath.Join(tmp, "zz_verif_replay_test.go")
	os.WriteFile(testFile, []byte(strings.Replace(replayTestSrc, "PKG", pkgName, 1)), 0644)
	ov := map[string]map[string]string{"Replace": {}}
	pkgDir := filepath.Join(pr.repo, pkgDirs[pkgKey])
	for v, r := range pr.overlayFiles {
		ov["Replace"][v] = r
	}
	ov["Replace"][filepath.Join(pkgDir, "zz_verif_registry.go")] = regFile
	ov["Replace"][filepath.Join(pkgDir, "zz_verif_replay_test.go")] = testFile
	ovb, _ := json.Marshal(ov)
	ovFile := filepath.Join(tmp, "overlay.json")
	os.WriteFile(ovFile, ovb, 0644)
	cmd := exec.Command("go", "test", "-tags", "verif", "-vet=off", "-count=1", "-timeout", "20m", "-overlay", ovFile, "-run", "^TestVfReplay$", "./"+pkgDirs[pkgKey])
	cmd.Dir = pr.repo
	cmd.Env = append(goEnv(), "VF_REPLAY_DIR="+outDir, "GOCACHE="+goCacheDir(), "VERIF_TIER="+rep.Tier)
	outb, err := cmd.CombinedOutput()
	if err != nil {
		rep.Fatal = append(rep.Fatal, "native replay build/run failed: "+err.Error()+"\n"+tail(string(outb), 3000))
		return
	}
	for _, v := range vecs {
		ob, err := os.ReadFile(strings.TrimSuffix(v.file, ".vec.json") + ".out.json")
		var no NativeOut
		if err != nil || json.Unmarshal(ob, &no) != nil {
			rep.ReplayProblems = append(rep.ReplayProblems, fmt.Sprintf("%s: no native result", filepath.Base(v.file)))
			continue
		}
		rep.Replayed++
		ids := strings.Split(v.ID, ",")
		switch v.Kind {
		case "witness":
			for _, id := range ids {
				ok := contains(no.Reached, id) || contains(no.Passed, id)
				if strings.HasSuffix(id, ".nopanic") {
					ok = true // panic witnesses are validated as violations/known
				}
				if !ok || contains(no.Failed, id) || no.AssumeFailed {
					rep.ReplayProblems = append(rep.ReplayProblems, fmt.Sprintf("witness for %s (%s) does not replay natively: reached=%v failed=%v panic=%q assumeFailed=%v timeout=%v", id, filepath.Base(v.file), no.Reached, no.Failed, no.Panic, no.AssumeFailed, no.Timeout))
				} else {
					rep.WitnessOK++
				}
			}
		case "violation", "known":
			repro := contains(no.Failed, v.ID)
			if strings.HasSuffix(v.ID, ".nopanic") {
				repro = no.Panic != ""
			}
			if no.AssumeFailed {
				repro = false
			}
			v.hit.Msg = strings.TrimSpace(v.hit.Msg + " native: failed=" + fmt.Sprint(no.Failed) + " panic=" + no.Panic)
			if repro {
				v.hit.Kind += "+reproduced"
				rep.ReproFiles = append(rep.ReproFiles, v.file)
			} else {
				v.hit.Kind += "+notreproduced"
			}
			v.hit.Pos = v.file
		}
	}
	rep.ReplayWall += time.Since(t0)
}

func goCacheDir() string {
	if d := os.Getenv("GOCACHE"); d != "" {
		return d
	}
	home, _ := os.UserCacheDir()
	return filepath.Join(home, "go-build")
}

func contains(xs []string, s string) bool {
	for _, x := range xs {
		if x == s {
			return true
		}
	}
	return false
}

func sortedBoolKeys(m map[string]bool) []string {
	var ks []string
	for k := range m {
		ks = append(ks, k)
	}
	sort.Strings(ks)
	return ks
}

func tail(s string, n int) string {
	if len(s) > n {
		return s[len(s)-n:]
	}
	return s
}

// replayRoot: where vectors are written; VERIF_REPLAYDIR redirects it (used when a check is run against a scratch tree).
func replayRoot() string {
	if d := os.Getenv("VERIF_REPLAYDIR"); d != "" {
		return d
	}
	return filepath.Join(verifRoot, "replays")
}
