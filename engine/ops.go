package main

import (
	"fmt"
	"go/token"
	"go/types"
	"unicode/utf8"

	"golang.org/x/tools/go/ssa"
)

func (p *Path) memAccess(fr *frame, instr ssa.Instruction, addr Ptr, write bool) {
	if p.racy != nil && p.racy[addr] {
		p.yield(fr, instr, "racy")
	}
}

func (p *Path) unop(fr *frame, instr *ssa.UnOp, x Value) Value {
	ts := p.e.ts
	switch instr.Op {
	case token.MUL: // load
		if sp, ok := x.(*SymPtr); ok {
			return p.loadSym(fr, instr, sp)
		}
		addr := x.(Ptr)
		if addr == nil {
			p.rtPanic(fr, instr, "invalid memory address or nil pointer dereference")
		}
		p.memAccess(fr, instr, addr, false)
		return copyVal(*addr)
	case token.NOT:
		return ts.Not(x.(*Term))
	case token.SUB:
		t := x.(*Term)
		if t.sort.K == SFP {
			return ts.FPUn("fp.neg", t)
		}
		return ts.BVNeg(t)
	case token.XOR:
		return ts.BVNot(x.(*Term))
	case token.ARROW:
		v, ok := p.chanRecv(fr, instr, x.(*Chan))
		if instr.CommaOk {
			return Tuple{v, ts.Bool(ok)}
		}
		return v
	}
	panic(engineError(fmt.Sprintf("unop %v", instr.Op)))
}

func (p *Path) binop(fr *frame, instr ssa.Instruction, op token.Token, t types.Type, x, y Value) Value {
	ts := p.e.ts
	switch op {
	case token.EQL:
		return p.e.eqVal(x, y)
	case token.NEQ:
		return ts.Not(p.e.eqVal(x, y))
	}
	switch xv := x.(type) {
	case *Term:
		yv := y.(*Term)
		switch xv.sort.K {
		case SBool:
			switch op {
			case token.AND, token.LAND:
				return ts.And(xv, yv)
			case token.OR, token.LOR:
				return ts.Or(xv, yv)
			}
		case SFP:
			switch op {
			case token.ADD:
				if p.fpAbs(fr, "add") && !(xv.isConst && yv.isConst) {
					return p.newFPInput("fpabs.add")
				}
				return ts.FPBin("fp.add", xv, yv)
			case token.SUB:
				if p.fpAbs(fr, "sub") && !(xv.isConst && yv.isConst) {
					return p.newFPInput("fpabs.sub")
				}
				return ts.FPBin("fp.sub", xv, yv)
			case token.MUL:
				if p.fpAbs(fr, "mul") && !(xv.isConst && yv.isConst) {
					return p.newFPInput("fpabs.mul")
				}
				return ts.FPBin("fp.mul", xv, yv)
			case token.QUO:
				if p.fpAbs(fr, "div") && !(xv.isConst && yv.isConst) {
					return p.newFPInput("fpabs.div")
				}
				return ts.FPBin("fp.div", xv, yv)
			case token.LSS:
				return ts.FPCmp("fp.lt", xv, yv)
			case token.LEQ:
				return ts.FPCmp("fp.leq", xv, yv)
			case token.GTR:
				return ts.FPCmp("fp.gt", xv, yv)
			case token.GEQ:
				return ts.FPCmp("fp.geq", xv, yv)
			}
		case SBV:
			signed := isSignedT(t)
			switch op {
			case token.ADD:
				return ts.BVBin("bvadd", xv, yv)
			case token.SUB:
				return ts.BVBin("bvsub", xv, yv)
			case token.MUL:
				return ts.BVBin("bvmul", xv, yv)
			case token.QUO, token.REM:
				if p.Branch(ts.BVIsZero(yv)) {
					p.rtPanic(fr, instr, "integer divide by zero")
				}
				if op == token.QUO {
					if signed {
						return ts.BVBin("bvsdiv", xv, yv)
					}
					return ts.BVBin("bvudiv", xv, yv)
				}
				if signed {
					return ts.BVBin("bvsrem", xv, yv)
				}
				return ts.BVBin("bvurem", xv, yv)
			case token.AND:
				return ts.BVBin("bvand", xv, yv)
			case token.OR:
				return ts.BVBin("bvor", xv, yv)
			case token.XOR:
				return ts.BVBin("bvxor", xv, yv)
			case token.AND_NOT:
				return ts.BVBin("bvand", xv, ts.BVNot(yv))
			case token.SHL, token.SHR:
				// shift count: unsigned or non-negative; saturate to width
				w := xv.sort.W
				cnt := yv
				if cnt.sort.W != w {
					if cnt.sort.W > w {
						big := ts.BVCmp("bvuge", cnt, ts.BV(cnt.sort.W, uint64(w)))
						cnt = ts.Ite(big, ts.BV(w, uint64(w)), ts.Extract(w-1, 0, cnt))
					} else {
						cnt = ts.ZeroExt(w-cnt.sort.W, cnt)
					}
				}
				if op == token.SHL {
					return ts.BVBin("bvshl", xv, cnt)
				}
				if signed {
					return ts.BVBin("bvashr", xv, cnt)
				}
				return ts.BVBin("bvlshr", xv, cnt)
			case token.LSS:
				if signed {
					return ts.BVCmp("bvslt", xv, yv)
				}
				return ts.BVCmp("bvult", xv, yv)
			case token.LEQ:
				if signed {
					return ts.BVCmp("bvsle", xv, yv)
				}
				return ts.BVCmp("bvule", xv, yv)
			case token.GTR:
				if signed {
					return ts.BVCmp("bvsgt", xv, yv)
				}
				return ts.BVCmp("bvugt", xv, yv)
			case token.GEQ:
				if signed {
					return ts.BVCmp("bvsge", xv, yv)
				}
				return ts.BVCmp("bvuge", xv, yv)
			}
		}
	case *Str:
		yv := y.(*Str)
		switch op {
		case token.ADD:
			nb := make([]*Term, 0, len(xv.b)+len(yv.b))
			nb = append(nb, xv.b...)
			nb = append(nb, yv.b...)
			return &Str{b: nb, opaque: xv.opaque || yv.opaque}
		case token.LSS:
			return p.strLess(xv, yv, false)
		case token.LEQ:
			return p.strLess(xv, yv, true)
		case token.GTR:
			return p.strLess(yv, xv, false)
		case token.GEQ:
			return p.strLess(yv, xv, true)
		}
	}
	panic(engineError(fmt.Sprintf("binop %v on %T at %s", op, x, fr.pos(instr))))
}

// strLess: lexicographic x < y (or <= if orEq) as a term.
func (p *Path) strLess(x, y *Str, orEq bool) *Term {
	ts := p.e.ts
	if x.opaque || y.opaque {
		panic(engineError("ordering of opaque string"))
	}
	// from the end backwards: less(i) = x[i]<y[i] || (x[i]==y[i] && less(i+1))
	n := len(x.b)
	if len(y.b) < n {
		n = len(y.b)
	}
	var tail *Term
	if len(x.b) < len(y.b) {
		tail = ts.True
	} else if len(x.b) == len(y.b) {
		tail = ts.Bool(orEq)
	} else {
		tail = ts.False
	}
	for i := n - 1; i >= 0; i-- {
		lt := ts.BVCmp("bvult", x.b[i], y.b[i])
		eq := ts.Eq(x.b[i], y.b[i])
		tail = ts.Or(lt, ts.And(eq, tail))
	}
	return tail
}

func (p *Path) conv(fr *frame, instr ssa.Instruction, tdst, tsrc types.Type, x Value) Value {
	ts := p.e.ts
	ud := tdst.Underlying()
	us := tsrc.Underlying()
	switch us := us.(type) {
	case *types.Pointer:
		if ud, ok := ud.(*types.Basic); ok && ud.Kind() == types.UnsafePointer {
			return x
		}
	case *types.Slice:
		// []byte / []rune -> string
		if isStringT(tdst) {
			sl := x.(Slice)
			if b := basicOf(us.Elem()); b != nil && b.Kind() == types.Uint8 {
				nb := make([]*Term, len(sl))
				for i, v := range sl {
					nb[i] = v.(*Term)
				}
				return &Str{b: nb}
			}
			// []rune
			var out []byte
			for _, v := range sl {
				t := v.(*Term)
				if !t.isConst {
					panic(engineError("string([]rune) with symbolic runes"))
				}
				out = utf8.AppendRune(out, rune(t.S()))
			}
			return p.e.strOf(string(out))
		}
	case *types.Basic:
		if us.Kind() == types.UnsafePointer {
			if _, ok := ud.(*types.Pointer); ok {
				return x
			}
			if b, ok := ud.(*types.Basic); ok && b.Kind() == types.UnsafePointer {
				return x
			}
		}
		if us.Info()&types.IsString != 0 {
			s := x.(*Str)
			if isStringT(tdst) {
				return s
			}
			if sl, ok := ud.(*types.Slice); ok {
				if b := basicOf(sl.Elem()); b != nil && b.Kind() == types.Uint8 {
					if s.opaque {
						panic(engineError("[]byte(opaque string) at " + fr.pos(instr)))
					}
					out := make(Slice, len(s.b))
					for i, t := range s.b {
						out[i] = t
					}
					return out
				}
				cs, ok := s.Concrete()
				if !ok {
					panic(engineError("[]rune(symbolic string)"))
				}
				var out Slice
				for _, r := range cs {
					out = append(out, ts.BV(32, uint64(r)))
				}
				if out == nil {
					out = Slice{}
				}
				return out
			}
		}
		if t, ok := x.(*Term); ok {
			db, _ := ud.(*types.Basic)
			if db == nil {
				break
			}
			if db.Info()&types.IsString != 0 {
				// integer -> string (rune)
				if !t.isConst {
					panic(engineError("string(symbolic rune)"))
				}
				return p.e.strOf(string(rune(t.S())))
			}
			dsort, ok := sortOfBasic(db)
			if !ok {
				break
			}
			switch t.sort.K {
			case SBV:
				_, ssigned, _ := intWidth(us)
				switch dsort.K {
				case SBV:
					return ts.Resize(t, dsort.W, ssigned)
				case SFP:
					return ts.FPFromBV(t, ssigned, dsort.W)
				}
			case SFP:
				switch dsort.K {
				case SFP:
					return ts.FPToFP(t, dsort.W)
				case SBV:
					_, dsigned, _ := intWidth(db)
					if dsort.W < 64 {
						// convert at 64 bits then truncate (matches amd64 for in-range values)
						return ts.Resize(ts.FPToBV(t, dsigned, 64), dsort.W, dsigned)
					}
					return ts.FPToBV(t, dsigned, dsort.W)
				}
			case SBool:
				if dsort.K == SBool {
					return t
				}
			}
		}
	}
	panic(engineError(fmt.Sprintf("conv %v -> %v unsupported at %s", tsrc, tdst, fr.pos(instr))))
}

// concretize forks until the term has a concrete value in [0,max].
func (p *Path) concretize(fr *frame, instr ssa.Instruction, t *Term, max int) int {
	ts := p.e.ts
	if t.isConst {
		v := t.S()
		if v < 0 || v > int64(max) {
			if v < 0 {
				p.rtPanic(fr, instr, fmt.Sprintf("negative size or index %d", v))
			}
			panic(pathEnd{"bound", fmt.Sprintf("concrete size %d exceeds engine bound %d", v, max)})
		}
		return int(v)
	}
	// negative sizes panic
	if p.Branch(ts.BVCmp("bvslt", t, ts.BV(t.sort.W, 0))) {
		p.rtPanic(fr, instr, "negative size or index (symbolic)")
	}
	// enumerate the feasible values through solver models
	lim := p.cfg.MaxConcretize
	for n := 0; n <= lim; n++ {
		var v uint64
		if i := len(p.decs); i < len(p.prefix) {
			v = p.prefix[i].Aux
		} else {
			val, ok := p.e.solver.EvalTerm(t)
			p.h.addFeasQueries(1)
			if !ok {
				panic(pathEnd{"bound", "cannot obtain a model value to concretise at " + fr.pos(instr)})
			}
			v = val
		}
		if p.branchAux(ts.Eq(t, ts.BV(t.sort.W, v)), v) {
			if v > uint64(max) {
				panic(pathEnd{"bound", fmt.Sprintf("size %d exceeds engine bound %d at %s", v, max, fr.pos(instr))})
			}
			return int(v)
		}
	}
	panic(pathEnd{"bound", fmt.Sprintf("more than %d feasible values when concretising at %s", lim, fr.pos(instr))})
}

// boundsIndex checks 0 <= idx < n (panic path otherwise) and returns a concrete index.
func (p *Path) boundsIndex(fr *frame, instr ssa.Instruction, idx *Term, it types.Type, n int) int {
	ts := p.e.ts
	if idx.isConst {
		v := idx.S()
		if !isSignedT(it) {
			if idx.u >= uint64(n) {
				p.rtPanic(fr, instr, fmt.Sprintf("index out of range [%d] with length %d", idx.u, n))
			}
			return int(idx.u)
		}
		if v < 0 || v >= int64(n) {
			p.rtPanic(fr, instr, fmt.Sprintf("index out of range [%d] with length %d", v, n))
		}
		return int(v)
	}
	in := ts.BVCmp("bvult", idx, ts.BV(idx.sort.W, uint64(n)))
	if !p.Branch(in) {
		p.rtPanic(fr, instr, fmt.Sprintf("index out of range [symbolic] with length %d", n))
	}
	for i := 0; i < n-1; i++ {
		if p.Branch(ts.Eq(idx, ts.BV(idx.sort.W, uint64(i)))) {
			return i
		}
	}
	return n - 1
}

func (p *Path) strIndex(fr *frame, instr ssa.Instruction, s *Str, idx *Term, it types.Type) Value {
	ts := p.e.ts
	if s.opaque {
		panic(engineError("index of opaque string at " + fr.pos(instr)))
	}
	n := len(s.b)
	if idx.isConst {
		i := p.boundsIndex(fr, instr, idx, it, n)
		return s.b[i]
	}
	in := ts.BVCmp("bvult", idx, ts.BV(idx.sort.W, uint64(n)))
	if !p.Branch(in) {
		p.rtPanic(fr, instr, fmt.Sprintf("index out of range [symbolic] with length %d", n))
	}
	r := s.b[n-1]
	for i := n - 2; i >= 0; i-- {
		r = ts.Ite(ts.Eq(idx, ts.BV(idx.sort.W, uint64(i))), s.b[i], r)
	}
	return r
}

func (p *Path) sliceOp(fr *frame, instr *ssa.Slice) Value {
	x := fr.get(instr.X)
	var l, c int
	var isNil bool
	switch xv := x.(type) {
	case *Str:
		l, c = len(xv.b), len(xv.b)
	case Slice:
		l, c = len(xv), cap(xv)
		isNil = xv == nil
	case Ptr:
		if xv == nil {
			p.rtPanic(fr, instr, "invalid memory address or nil pointer dereference")
		}
		a := (*xv).(Array)
		l, c = len(a), len(a)
	default:
		panic(engineError(fmt.Sprintf("slice of %T", x)))
	}
	_ = l
	lo, hi, max := 0, l, c
	get := func(v ssa.Value, dflt int, limit int, what string) int {
		if v == nil {
			return dflt
		}
		t := fr.get(v).(*Term)
		ts := p.e.ts
		if t.isConst {
			n := t.S()
			if !isSignedT(v.Type()) && t.u > uint64(limit) {
				n = int64(limit) + 1
			}
			if n < 0 || n > int64(limit) {
				p.rtPanic(fr, instr, fmt.Sprintf("slice bounds out of range [%s %d] with capacity %d", what, n, limit))
			}
			return int(n)
		}
		if !p.Branch(ts.BVCmp("bvule", t, ts.BV(t.sort.W, uint64(limit)))) {
			p.rtPanic(fr, instr, fmt.Sprintf("slice bounds out of range [%s symbolic] with capacity %d", what, limit))
		}
		for i := 0; i < limit; i++ {
			if p.Branch(ts.Eq(t, ts.BV(t.sort.W, uint64(i)))) {
				return i
			}
		}
		return limit
	}
	if instr.Max != nil {
		max = get(instr.Max, c, c, "::max")
	}
	if instr.High != nil {
		hi = get(instr.High, l, max, ":high")
	}
	lo = get(instr.Low, 0, hi, "low:")
	if lo > hi {
		p.rtPanic(fr, instr, fmt.Sprintf("slice bounds out of range [%d:%d]", lo, hi))
	}
	switch xv := x.(type) {
	case *Str:
		if xv.opaque {
			panic(engineError("slicing opaque string at " + fr.pos(instr)))
		}
		return &Str{b: xv.b[lo:hi]}
	case Slice:
		if isNil {
			return Slice(nil)
		}
		return xv[lo:hi:max]
	case Ptr:
		a := (*xv).(Array)
		return Slice(a[lo:hi:max])
	}
	panic("unreachable")
}

// ---- maps ----

func (p *Path) mapFind(m *Map, key Value) *MapEnt {
	if ifc, ok := key.(Iface); ok && ifc.T != nil {
		if !types.Comparable(ifc.T) {
			panic(targetPanic{msg: "runtime error: hash of unhashable type " + ifc.T.String()})
		}
	}
	for _, ent := range m.ents {
		c := p.e.eqVal(ent.k, key)
		if p.Branch(c) {
			return ent
		}
	}
	return nil
}

func (p *Path) lookup(fr *frame, instr *ssa.Lookup, x, idx Value) Value {
	switch xv := x.(type) {
	case *Str:
		return p.strIndex(fr, instr, xv, idx.(*Term), instr.Index.Type())
	case *Map:
		vt := instr.X.Type().Underlying().(*types.Map).Elem()
		var v Value
		ok := false
		if xv != nil {
			if ent := p.mapFind(xv, idx); ent != nil {
				v, ok = copyVal(ent.v), true
			}
		}
		if !ok {
			v = p.e.zero(vt)
		}
		if instr.CommaOk {
			return Tuple{v, p.e.ts.Bool(ok)}
		}
		return v
	}
	panic(engineError(fmt.Sprintf("lookup on %T", x)))
}

func (p *Path) mapUpdate(fr *frame, instr ssa.Instruction, m *Map, key, val Value) {
	if ent := p.mapFind(m, key); ent != nil {
		ent.v = val
		return
	}
	m.ents = append(m.ents, &MapEnt{k: key, v: val})
}

func (p *Path) mapDelete(m *Map, key Value) {
	if m == nil {
		return
	}
	if ent := p.mapFind(m, key); ent != nil {
		for i, e2 := range m.ents {
			if e2 == ent {
				m.ents = append(m.ents[:i:i], m.ents[i+1:]...)
				return
			}
		}
	}
}

// ---- type assertions ----

func (p *Path) typeAssert(fr *frame, instr *ssa.TypeAssert, itf Iface) Value {
	var v Value
	ok := false
	if itf.T != nil {
		if idst, isI := instr.AssertedType.Underlying().(*types.Interface); isI {
			if types.Implements(itf.T, idst) || p.implementsViaMethodSet(itf.T, idst) {
				v, ok = itf, true
			}
		} else if types.Identical(itf.T, instr.AssertedType) {
			v, ok = itf.V, true
		}
	}
	if instr.CommaOk {
		if !ok {
			v = p.e.zero(instr.AssertedType)
		}
		return Tuple{v, p.e.ts.Bool(ok)}
	}
	if !ok {
		panic(targetPanic{msg: fmt.Sprintf("interface conversion: interface is %v, not %v", itf.T, instr.AssertedType), pos: fr.pos(instr)})
	}
	return v
}

func (p *Path) implementsViaMethodSet(t types.Type, i *types.Interface) bool {
	ms := p.prog.MethodSets.MethodSet(t)
	for k := 0; k < i.NumMethods(); k++ {
		m := i.Method(k)
		if ms.Lookup(m.Pkg(), m.Name()) == nil {
			return false
		}
	}
	return true
}

// ---- range ----

type iterator interface {
	next(p *Path, fr *frame, instr *ssa.Next) Value
}

type mapIter struct {
	ents []*MapEnt
	m    *Map
	i    int
}

func (it *mapIter) next(p *Path, fr *frame, instr *ssa.Next) Value {
	ts := p.e.ts
	for it.i < len(it.ents) {
		ent := it.ents[it.i]
		it.i++
		// skip entries deleted during iteration
		live := false
		for _, e2 := range it.m.ents {
			if e2 == ent {
				live = true
			}
		}
		if !live {
			continue
		}
		return Tuple{ts.True, ent.k, copyVal(ent.v)}
	}
	var kz, vz Value
	if it.m != nil {
		kz, vz = p.e.zero(it.m.kt), p.e.zero(it.m.vt)
	}
	return Tuple{ts.False, kz, vz}
}

type strIter struct {
	s *Str
	i int
}

func (it *strIter) next(p *Path, fr *frame, instr *ssa.Next) Value {
	ts := p.e.ts
	if it.i >= len(it.s.b) {
		return Tuple{ts.False, ts.BV(64, 0), ts.BV(32, 0)}
	}
	b := it.s.b[it.i]
	if b.isConst && b.u >= 0x80 {
		// decode concrete multi-byte rune if all bytes concrete
		var raw []byte
		for j := it.i; j < len(it.s.b) && j < it.i+4; j++ {
			if !it.s.b[j].isConst {
				break
			}
			raw = append(raw, byte(it.s.b[j].u))
		}
		r, sz := utf8.DecodeRune(raw)
		idx := it.i
		it.i += sz
		return Tuple{ts.True, ts.BV(64, uint64(idx)), ts.BV(32, uint64(r))}
	}
	if !b.isConst {
		if !p.Branch(ts.BVCmp("bvult", b, ts.BV(8, 0x80))) {
			panic(pathEnd{"bound", "non-ASCII symbolic byte in range-over-string (outside stated bounds)"})
		}
	}
	idx := it.i
	it.i++
	return Tuple{ts.True, ts.BV(64, uint64(idx)), ts.ZeroExt(24, b)}
}

func (p *Path) rangeIter(fr *frame, instr *ssa.Range, x Value) iterator {
	switch x := x.(type) {
	case *Map:
		if x == nil {
			return &mapIter{}
		}
		ents := append([]*MapEnt(nil), x.ents...)
		if p.cfg.MapOrder && len(ents) > 1 {
			// arbitrary iteration order: a symbolic rotation plus optional reversal
			k := p.decide(len(ents), "maporder")
			rot := append(append([]*MapEnt(nil), ents[k:]...), ents[:k]...)
			ents = rot
		}
		return &mapIter{ents: ents, m: x}
	case *Str:
		if x.opaque {
			panic(engineError("range over opaque string"))
		}
		return &strIter{s: x}
	}
	panic(engineError(fmt.Sprintf("range over %T", x)))
}

// ---- builtins ----

func (p *Path) callBuiltin(caller *frame, callpos token.Pos, fn *ssa.Builtin, args []Value) Value {
	ts := p.e.ts
	switch fn.Name() {
	case "append":
		if len(args) == 1 {
			return args[0]
		}
		s0 := args[0].(Slice)
		var add []Value
		switch a := args[1].(type) {
		case *Str:
			if a.opaque {
				panic(engineError("append(opaque string)"))
			}
			for _, t := range a.b {
				add = append(add, t)
			}
		case Slice:
			for _, v := range a {
				add = append(add, copyVal(v))
			}
		}
		if len(add) == 0 {
			return s0
		}
		return Slice(append(s0, add...))
	case "copy":
		dst := args[0].(Slice)
		switch src := args[1].(type) {
		case *Str:
			n := len(dst)
			if len(src.b) < n {
				n = len(src.b)
			}
			for i := 0; i < n; i++ {
				dst[i] = src.b[i]
			}
			return ts.BV(64, uint64(n))
		case Slice:
			n := len(dst)
			if len(src) < n {
				n = len(src)
			}
			tmp := make([]Value, n)
			for i := 0; i < n; i++ {
				tmp[i] = copyVal(src[i])
			}
			copy(dst, tmp)
			return ts.BV(64, uint64(n))
		}
	case "close":
		p.chanClose(caller, args[0].(*Chan))
		return nil
	case "delete":
		p.mapDelete(args[0].(*Map), args[1])
		return nil
	case "print", "println":
		return nil
	case "len":
		switch x := args[0].(type) {
		case *Str:
			return ts.BV(64, uint64(len(x.b)))
		case Array:
			return ts.BV(64, uint64(len(x)))
		case Ptr:
			return ts.BV(64, uint64(len((*x).(Array))))
		case Slice:
			return ts.BV(64, uint64(len(x)))
		case *Map:
			if x == nil {
				return ts.BV(64, 0)
			}
			return ts.BV(64, uint64(len(x.ents)))
		case *Chan:
			if x == nil {
				return ts.BV(64, 0)
			}
			return ts.BV(64, uint64(len(x.buf)))
		case *OpaqueBytes:
			return x.length
		}
	case "cap":
		switch x := args[0].(type) {
		case Array:
			return ts.BV(64, uint64(len(x)))
		case Ptr:
			return ts.BV(64, uint64(len((*x).(Array))))
		case Slice:
			return ts.BV(64, uint64(cap(x)))
		case *Chan:
			if x == nil {
				return ts.BV(64, 0)
			}
			return ts.BV(64, uint64(x.cap))
		}
	case "min", "max":
		r := args[0].(*Term)
		for _, a := range args[1:] {
			y := a.(*Term)
			var c *Term
			if r.sort.K == SFP {
				// Go: NaN if any NaN
				if fn.Name() == "min" {
					c = ts.FPCmp("fp.lt", y, r)
				} else {
					c = ts.FPCmp("fp.gt", y, r)
				}
				sel := ts.Ite(c, y, r)
				sel = ts.Ite(ts.FPPred("fp.isNaN", y), y, sel)
				sel = ts.Ite(ts.FPPred("fp.isNaN", r), r, sel)
				r = sel
				continue
			}
			// signedness: builtin's signature carries the type
			signed := isSignedT(fn.Type().(*types.Signature).Params().At(0).Type())
			op := "bvult"
			if signed {
				op = "bvslt"
			}
			if fn.Name() == "min" {
				c = ts.BVCmp(op, y, r)
			} else {
				c = ts.BVCmp(op, r, y)
			}
			r = ts.Ite(c, y, r)
		}
		return r
	case "panic":
		panic(targetPanic{v: args[0], msg: p.panicText(args[0])})
	case "recover":
		return p.doRecover(caller)
	case "clear":
		switch x := args[0].(type) {
		case *Map:
			if x != nil {
				x.ents = nil
			}
			return nil
		}
	case "ssa:wrapnilchk":
		recv := args[0]
		if !isNilPtr(recv) {
			return recv
		}
		panic(targetPanic{msg: "runtime error: invalid memory address or nil pointer dereference (wrapnilchk)"})
	}
	panic(engineError(fmt.Sprintf("builtin %s on %T unsupported", fn.Name(), args[0])))
}

// fpAbs: is this float operation replaced by an arbitrary result here? (//vf:fpabstract, except inside the
// functions named by //vf:fpexactin, whose own instructions keep the exact IEEE semantics)
func (p *Path) fpAbs(fr *frame, op string) bool {
	if !p.cfg.FPAbstract[op] {
		return false
	}
	if fr != nil && fr.fn != nil {
		for _, n := range p.cfg.FPExactIn {
			if fr.fn.Name() == n {
				return false
			}
		}
	}
	return true
}
