package main

// Hash-consed SMT terms with constant folding. All scalar Go values handled by
// the symbolic executor are *Term: Bool, (_ BitVec w) or IEEE floating point.

import (
	"fmt"
	"math"
	"math/bits"
	"strings"
)

type SortKind uint8

const (
	SBool SortKind = iota
	SBV
	SFP
)

type Sort struct {
	K SortKind
	W int // bit width (BV), 32/64 (FP)
}

var BoolSort = Sort{SBool, 0}

func BVSort(w int) Sort { return Sort{SBV, w} }
func FPSort(w int) Sort { return Sort{SFP, w} }

func (s Sort) String() string {
	switch s.K {
	case SBool:
		return "Bool"
	case SBV:
		return fmt.Sprintf("(_ BitVec %d)", s.W)
	case SFP:
		if s.W == 32 {
			return "(_ FloatingPoint 8 24)"
		}
		return "(_ FloatingPoint 11 53)"
	}
	return "?"
}

type Term struct {
	id      int
	op      string
	args    []*Term
	sort    Sort
	isConst bool
	u       uint64 // constant payload: bool 0/1, BV value, FP bits
	name    string // variables / raw text
	x0, x1  int    // extract hi/lo, extension amount
}

func (t *Term) Sort() Sort    { return t.sort }
func (t *Term) IsConst() bool { return t.isConst }
func (t *Term) IsTrue() bool  { return t.isConst && t.sort.K == SBool && t.u == 1 }
func (t *Term) IsFalse() bool { return t.isConst && t.sort.K == SBool && t.u == 0 }
func (t *Term) U() uint64     { return t.u }

// S returns the constant as a sign-extended int64.
func (t *Term) S() int64 {
	w := t.sort.W
	if w >= 64 {
		return int64(t.u)
	}
	sh := uint(64 - w)
	return int64(t.u<<sh) >> sh
}

func (t *Term) F() float64 {
	if t.sort.W == 32 {
		return float64(math.Float32frombits(uint32(t.u)))
	}
	return math.Float64frombits(t.u)
}

type TermStore struct {
	tab   map[string]*Term
	next  int
	True  *Term
	False *Term
	vars  map[string]*Term
}

func NewTermStore() *TermStore {
	ts := &TermStore{tab: map[string]*Term{}, vars: map[string]*Term{}}
	ts.True = ts.Bool(true)
	ts.False = ts.Bool(false)
	return ts
}

func (ts *TermStore) intern(t *Term) *Term {
	var sb strings.Builder
	sb.WriteString(t.op)
	fmt.Fprintf(&sb, "|%d.%d|", t.sort.K, t.sort.W)
	if t.isConst {
		fmt.Fprintf(&sb, "c%d", t.u)
	}
	if t.name != "" {
		sb.WriteString("n" + t.name)
	}
	if t.x0 != 0 || t.x1 != 0 {
		fmt.Fprintf(&sb, "x%d.%d", t.x0, t.x1)
	}
	for _, a := range t.args {
		fmt.Fprintf(&sb, ",%d", a.id)
	}
	k := sb.String()
	if o, ok := ts.tab[k]; ok {
		return o
	}
	ts.next++
	t.id = ts.next
	ts.tab[k] = t
	return t
}

func mask(w int) uint64 {
	if w >= 64 {
		return ^uint64(0)
	}
	return (uint64(1) << uint(w)) - 1
}

func (ts *TermStore) Bool(b bool) *Term {
	u := uint64(0)
	if b {
		u = 1
	}
	return ts.intern(&Term{op: "const", sort: BoolSort, isConst: true, u: u})
}

func (ts *TermStore) BV(w int, u uint64) *Term {
	return ts.intern(&Term{op: "const", sort: BVSort(w), isConst: true, u: u & mask(w)})
}

func (ts *TermStore) FP(w int, f float64) *Term {
	var u uint64
	if w == 32 {
		u = uint64(math.Float32bits(float32(f)))
	} else {
		u = math.Float64bits(f)
	}
	return ts.intern(&Term{op: "const", sort: FPSort(w), isConst: true, u: u})
}

func (ts *TermStore) FPBits(w int, u uint64) *Term {
	return ts.intern(&Term{op: "const", sort: FPSort(w), isConst: true, u: u})
}

func (ts *TermStore) Var(name string, s Sort) *Term {
	if v, ok := ts.vars[name]; ok {
		if v.sort != s {
			panic(fmt.Sprintf("variable %s redeclared with sort %v (was %v)", name, s, v.sort))
		}
		return v
	}
	v := ts.intern(&Term{op: "var", sort: s, name: name})
	ts.vars[name] = v
	return v
}

// Raw is an SMT-LIB Bool expression given as text (known-finding predicates).
func (ts *TermStore) Raw(text string, deps []*Term) *Term {
	return ts.intern(&Term{op: "raw", sort: BoolSort, name: text, args: deps})
}

func (ts *TermStore) mk(op string, s Sort, args ...*Term) *Term {
	return ts.intern(&Term{op: op, sort: s, args: args})
}

// ---- Boolean ----

func (ts *TermStore) Not(a *Term) *Term {
	if a.isConst {
		return ts.Bool(a.u == 0)
	}
	if a.op == "not" {
		return a.args[0]
	}
	return ts.mk("not", BoolSort, a)
}

func (ts *TermStore) And(a, b *Term) *Term {
	if a.isConst {
		if a.u == 1 {
			return b
		}
		return ts.False
	}
	if b.isConst {
		if b.u == 1 {
			return a
		}
		return ts.False
	}
	if a == b {
		return a
	}
	return ts.mk("and", BoolSort, a, b)
}

func (ts *TermStore) Or(a, b *Term) *Term {
	if a.isConst {
		if a.u == 1 {
			return ts.True
		}
		return b
	}
	if b.isConst {
		if b.u == 1 {
			return ts.True
		}
		return a
	}
	if a == b {
		return a
	}
	return ts.mk("or", BoolSort, a, b)
}

func (ts *TermStore) Implies(a, b *Term) *Term { return ts.Or(ts.Not(a), b) }

func (ts *TermStore) Ite(c, a, b *Term) *Term {
	if c.isConst {
		if c.u == 1 {
			return a
		}
		return b
	}
	if a == b {
		return a
	}
	if a.sort != b.sort {
		panic(fmt.Sprintf("ite sort mismatch %v %v", a.sort, b.sort))
	}
	if a.sort.K == SBool {
		if a.IsTrue() && b.IsFalse() {
			return c
		}
		if a.IsFalse() && b.IsTrue() {
			return ts.Not(c)
		}
	}
	return ts.mk("ite", a.sort, c, a, b)
}

func (ts *TermStore) Eq(a, b *Term) *Term {
	if a.sort != b.sort {
		// a "number token" (a 64-bit value standing for its decimal digits inside a byte
		// string, see fmtArg) never equals a byte that is not a digit
		if a.sort == BVSort(64) && b.sort == BVSort(8) {
			a, b = b, a
		}
		if a.sort == BVSort(8) && b.sort == BVSort(64) {
			if a.isConst && (a.u < '0' || a.u > '9') {
				return ts.False
			}
			panic(engineError("comparison of a decimal-number token with a digit or a symbolic byte"))
		}
		panic(fmt.Sprintf("eq sort mismatch %v %v (%s / %s)", a.sort, b.sort, ts.Show(a), ts.Show(b)))
	}
	if a == b && a.sort.K != SFP {
		return ts.True
	}
	if a.isConst && b.isConst {
		if a.sort.K == SFP {
			return ts.Bool(a.F() == b.F())
		}
		return ts.Bool(a.u == b.u)
	}
	if a.sort.K == SFP {
		return ts.mk("fp.eq", BoolSort, a, b)
	}
	if a.sort.K == SBool {
		if a.isConst {
			if a.u == 1 {
				return b
			}
			return ts.Not(b)
		}
		if b.isConst {
			if b.u == 1 {
				return a
			}
			return ts.Not(a)
		}
	}
	if a.id > b.id {
		a, b = b, a
	}
	return ts.mk("=", BoolSort, a, b)
}

// ---- Bit-vectors ----

func sext(u uint64, w int) int64 {
	if w >= 64 {
		return int64(u)
	}
	sh := uint(64 - w)
	return int64(u<<sh) >> sh
}

// BVBin builds a binary bit-vector operation with wrap-around semantics.
func (ts *TermStore) BVBin(op string, a, b *Term) *Term {
	if a.sort != b.sort || a.sort.K != SBV {
		panic(fmt.Sprintf("bv %s sort mismatch %v %v", op, a.sort, b.sort))
	}
	w := a.sort.W
	if a.isConst && b.isConst {
		x, y := a.u, b.u
		var r uint64
		switch op {
		case "bvadd":
			r = x + y
		case "bvsub":
			r = x - y
		case "bvmul":
			r = x * y
		case "bvand":
			r = x & y
		case "bvor":
			r = x | y
		case "bvxor":
			r = x ^ y
		case "bvudiv":
			if y == 0 {
				r = mask(w)
			} else {
				r = x / y
			}
		case "bvurem":
			if y == 0 {
				r = x
			} else {
				r = x % y
			}
		case "bvsdiv":
			sx, sy := sext(x, w), sext(y, w)
			if sy == 0 {
				if sx >= 0 {
					r = mask(w)
				} else {
					r = 1
				}
			} else if sy == -1 {
				r = uint64(-sx)
			} else {
				r = uint64(sx / sy)
			}
		case "bvsrem":
			sx, sy := sext(x, w), sext(y, w)
			if sy == 0 {
				r = x
			} else if sy == -1 {
				r = 0
			} else {
				r = uint64(sx % sy)
			}
		case "bvshl":
			if y >= uint64(w) {
				r = 0
			} else {
				r = x << y
			}
		case "bvlshr":
			if y >= uint64(w) {
				r = 0
			} else {
				r = x >> y
			}
		case "bvashr":
			sx := sext(x, w)
			if y >= uint64(w) {
				if sx < 0 {
					r = mask(w)
				} else {
					r = 0
				}
			} else {
				r = uint64(sx >> y)
			}
		default:
			panic("bvbin fold: " + op)
		}
		return ts.BV(w, r)
	}
	// light simplification
	switch op {
	case "bvadd", "bvor", "bvxor":
		if a.isConst && a.u == 0 {
			return b
		}
		if b.isConst && b.u == 0 {
			return a
		}
	case "bvsub", "bvshl", "bvlshr", "bvashr":
		if b.isConst && b.u == 0 {
			return a
		}
	case "bvmul":
		if a.isConst && a.u == 1 {
			return b
		}
		if b.isConst && b.u == 1 {
			return a
		}
		if (a.isConst && a.u == 0) || (b.isConst && b.u == 0) {
			return ts.BV(w, 0)
		}
	case "bvand":
		if (a.isConst && a.u == 0) || (b.isConst && b.u == 0) {
			return ts.BV(w, 0)
		}
		if a.isConst && a.u == mask(w) {
			return b
		}
		if b.isConst && b.u == mask(w) {
			return a
		}
	}
	return ts.mk(op, a.sort, a, b)
}

func (ts *TermStore) BVCmp(op string, a, b *Term) *Term {
	if a.sort != b.sort || a.sort.K != SBV {
		panic(fmt.Sprintf("bv %s sort mismatch %v %v", op, a.sort, b.sort))
	}
	w := a.sort.W
	if a.isConst && b.isConst {
		var r bool
		switch op {
		case "bvult":
			r = a.u < b.u
		case "bvule":
			r = a.u <= b.u
		case "bvugt":
			r = a.u > b.u
		case "bvuge":
			r = a.u >= b.u
		case "bvslt":
			r = sext(a.u, w) < sext(b.u, w)
		case "bvsle":
			r = sext(a.u, w) <= sext(b.u, w)
		case "bvsgt":
			r = sext(a.u, w) > sext(b.u, w)
		case "bvsge":
			r = sext(a.u, w) >= sext(b.u, w)
		default:
			panic("bvcmp fold " + op)
		}
		return ts.Bool(r)
	}
	if a == b {
		switch op {
		case "bvult", "bvugt", "bvslt", "bvsgt":
			return ts.False
		default:
			return ts.True
		}
	}
	return ts.mk(op, BoolSort, a, b)
}

func (ts *TermStore) BVNot(a *Term) *Term {
	if a.isConst {
		return ts.BV(a.sort.W, ^a.u)
	}
	return ts.mk("bvnot", a.sort, a)
}

func (ts *TermStore) BVNeg(a *Term) *Term {
	if a.isConst {
		return ts.BV(a.sort.W, -a.u)
	}
	return ts.mk("bvneg", a.sort, a)
}

func (ts *TermStore) Extract(hi, lo int, a *Term) *Term {
	w := hi - lo + 1
	if a.isConst {
		return ts.BV(w, a.u>>uint(lo))
	}
	if lo == 0 && w == a.sort.W {
		return a
	}
	return ts.intern(&Term{op: "extract", sort: BVSort(w), args: []*Term{a}, x0: hi, x1: lo})
}

func (ts *TermStore) ZeroExt(n int, a *Term) *Term {
	if n == 0 {
		return a
	}
	if a.isConst {
		return ts.BV(a.sort.W+n, a.u)
	}
	return ts.intern(&Term{op: "zero_extend", sort: BVSort(a.sort.W + n), args: []*Term{a}, x0: n})
}

func (ts *TermStore) SignExt(n int, a *Term) *Term {
	if n == 0 {
		return a
	}
	if a.isConst {
		return ts.BV(a.sort.W+n, uint64(sext(a.u, a.sort.W)))
	}
	return ts.intern(&Term{op: "sign_extend", sort: BVSort(a.sort.W + n), args: []*Term{a}, x0: n})
}

// Resize converts a BV to width w (truncate or extend by signedness).
func (ts *TermStore) Resize(a *Term, w int, signed bool) *Term {
	if a.sort.W == w {
		return a
	}
	if a.sort.W > w {
		return ts.Extract(w-1, 0, a)
	}
	if signed {
		return ts.SignExt(w-a.sort.W, a)
	}
	return ts.ZeroExt(w-a.sort.W, a)
}

// BoolToBV / helpers
func (ts *TermStore) BVIsZero(a *Term) *Term { return ts.Eq(a, ts.BV(a.sort.W, 0)) }

// ---- Floating point ----

func (ts *TermStore) FPBin(op string, a, b *Term) *Term {
	if a.sort != b.sort || a.sort.K != SFP {
		panic("fp sort mismatch")
	}
	// IEEE addition and multiplication are commutative (SMT-LIB has a single NaN):
	// normalise the operand order so that x+y and y+x are the same term
	if (op == "fp.add" || op == "fp.mul") && !a.isConst && !b.isConst && b.id < a.id {
		a, b = b, a
	}
	if a.isConst && b.isConst {
		x, y := a.F(), b.F()
		var r float64
		ok := true
		if a.sort.W == 32 {
			fx, fy := float32(x), float32(y)
			var fr float32
			switch op {
			case "fp.add":
				fr = fx + fy
			case "fp.sub":
				fr = fx - fy
			case "fp.mul":
				fr = fx * fy
			case "fp.div":
				fr = fx / fy
			default:
				ok = false
			}
			r = float64(fr)
		} else {
			switch op {
			case "fp.add":
				r = x + y
			case "fp.sub":
				r = x - y
			case "fp.mul":
				r = x * y
			case "fp.div":
				r = x / y
			default:
				ok = false
			}
		}
		if ok {
			return ts.FP(a.sort.W, r)
		}
	}
	return ts.mk(op, a.sort, a, b)
}

func (ts *TermStore) FPCmp(op string, a, b *Term) *Term {
	if a.isConst && b.isConst {
		x, y := a.F(), b.F()
		switch op {
		case "fp.lt":
			return ts.Bool(x < y)
		case "fp.leq":
			return ts.Bool(x <= y)
		case "fp.gt":
			return ts.Bool(x > y)
		case "fp.geq":
			return ts.Bool(x >= y)
		case "fp.eq":
			return ts.Bool(x == y)
		}
	}
	return ts.mk(op, BoolSort, a, b)
}

func (ts *TermStore) FPUn(op string, a *Term) *Term {
	if a.isConst {
		x := a.F()
		switch op {
		case "fp.neg":
			if a.sort.W == 32 {
				return ts.FPBits(32, a.u^(1<<31))
			}
			return ts.FPBits(64, a.u^(1<<63))
		case "fp.abs":
			return ts.FP(a.sort.W, math.Abs(x))
		case "fp.sqrt":
			if a.sort.W == 64 {
				return ts.FP(64, math.Sqrt(x))
			}
			return ts.FP(32, float64(float32(math.Sqrt(x))))
		}
	}
	return ts.mk(op, a.sort, a)
}

func (ts *TermStore) FPPred(op string, a *Term) *Term {
	if a.isConst {
		x := a.F()
		switch op {
		case "fp.isNaN":
			return ts.Bool(math.IsNaN(x))
		case "fp.isInfinite":
			return ts.Bool(math.IsInf(x, 0))
		case "fp.isNegative":
			return ts.Bool(math.Signbit(x) && !math.IsNaN(x))
		case "fp.isZero":
			return ts.Bool(x == 0)
		}
	}
	return ts.mk(op, BoolSort, a)
}

// FPFromBV converts an integer to floating point (RNE).
func (ts *TermStore) FPFromBV(a *Term, signed bool, w int) *Term {
	if a.isConst {
		if signed {
			if w == 32 {
				return ts.FP(32, float64(float32(a.S())))
			}
			return ts.FP(64, float64(a.S()))
		}
		if w == 32 {
			return ts.FP(32, float64(float32(a.u)))
		}
		return ts.FP(64, float64(a.u))
	}
	op := "to_fp_unsigned"
	if signed {
		op = "to_fp_signed"
	}
	return ts.mk(op, FPSort(w), a)
}

// FPToBV converts a float to an integer of width w, rounding toward zero.
// Out-of-range behaviour is implementation-specific in Go; callers fork on range if it matters.
func (ts *TermStore) FPToBV(a *Term, signed bool, w int) *Term {
	if a.isConst {
		f := a.F()
		if !math.IsNaN(f) && !math.IsInf(f, 0) && math.Abs(f) < 9.2e18 {
			if signed {
				return ts.BV(w, uint64(int64(f)))
			}
			if f >= 0 {
				return ts.BV(w, uint64(f))
			}
		}
	}
	op := "fp.to_ubv"
	if signed {
		op = "fp.to_sbv"
	}
	return ts.intern(&Term{op: op, sort: BVSort(w), args: []*Term{a}, x0: w})
}

func (ts *TermStore) FPToFP(a *Term, w int) *Term {
	if a.sort.W == w {
		return a
	}
	if a.isConst {
		return ts.FP(w, a.F())
	}
	return ts.intern(&Term{op: "fp.to_fp", sort: FPSort(w), args: []*Term{a}, x0: w})
}

func (ts *TermStore) FPBitsOf(a *Term) *Term { // math.Float64bits
	if a.isConst {
		return ts.BV(a.sort.W, a.u)
	}
	panic("Float64bits of symbolic float not supported")
}

// ---- printing ----

func (ts *TermStore) Show(t *Term) string {
	var sb strings.Builder
	ts.show(&sb, t, 0)
	return sb.String()
}

func (ts *TermStore) show(sb *strings.Builder, t *Term, d int) {
	if d > 6 {
		sb.WriteString("...")
		return
	}
	if t.isConst || t.op == "var" {
		sb.WriteString(leafText(t))
		return
	}
	sb.WriteString("(" + t.op)
	for _, a := range t.args {
		sb.WriteString(" ")
		ts.show(sb, a, d+1)
	}
	sb.WriteString(")")
}

func quoteSym(n string) string {
	simple := true
	for _, c := range n {
		if !(c >= 'a' && c <= 'z' || c >= 'A' && c <= 'Z' || c >= '0' && c <= '9' || c == '_' || c == '.') {
			simple = false
		}
	}
	if simple && len(n) > 0 && !(n[0] >= '0' && n[0] <= '9') {
		return n
	}
	return "|" + strings.NewReplacer("|", "!", "\\", "!").Replace(n) + "|"
}

func leafText(t *Term) string {
	if t.op == "var" {
		return quoteSym(t.name)
	}
	switch t.sort.K {
	case SBool:
		if t.u == 1 {
			return "true"
		}
		return "false"
	case SBV:
		if t.sort.W%4 == 0 {
			return fmt.Sprintf("#x%0*x", t.sort.W/4, t.u)
		}
		return fmt.Sprintf("#b%0*b", t.sort.W, t.u)
	case SFP:
		if t.sort.W == 32 {
			u := uint32(t.u)
			return fmt.Sprintf("(fp #b%b #b%08b #b%023b)", u>>31, (u>>23)&0xff, u&0x7fffff)
		}
		return fmt.Sprintf("(fp #b%b #b%011b #b%052b)", t.u>>63, (t.u>>52)&0x7ff, t.u&((1<<52)-1))
	}
	return "?"
}

// ref is how a term is referenced inside another term's definition.
func ref(t *Term) string {
	if t.isConst || t.op == "var" {
		return leafText(t)
	}
	return fmt.Sprintf("t%d", t.id)
}

// defText is the SMT-LIB body of a non-leaf term with children referenced by name.
func defText(t *Term) string {
	a := func(i int) string { return ref(t.args[i]) }
	switch t.op {
	case "raw":
		return t.name
	case "extract":
		return fmt.Sprintf("((_ extract %d %d) %s)", t.x0, t.x1, a(0))
	case "zero_extend", "sign_extend":
		return fmt.Sprintf("((_ %s %d) %s)", t.op, t.x0, a(0))
	case "fp.add", "fp.sub", "fp.mul", "fp.div":
		return fmt.Sprintf("(%s RNE %s %s)", t.op, a(0), a(1))
	case "fp.sqrt":
		return fmt.Sprintf("(fp.sqrt RNE %s)", a(0))
	case "to_fp_signed":
		return fmt.Sprintf("((_ to_fp %s) RNE %s)", fpIdx(t.sort.W), a(0))
	case "to_fp_unsigned":
		return fmt.Sprintf("((_ to_fp_unsigned %s) RNE %s)", fpIdx(t.sort.W), a(0))
	case "fp.to_fp":
		return fmt.Sprintf("((_ to_fp %s) RNE %s)", fpIdx(t.sort.W), a(0))
	case "fp.from_ieee":
		return fmt.Sprintf("((_ to_fp %s) %s)", fpIdx(t.sort.W), a(0))
	case "fp.to_sbv", "fp.to_ubv":
		return fmt.Sprintf("((_ %s %d) RTZ %s)", t.op, t.x0, a(0))
	}
	var sb strings.Builder
	sb.WriteString("(" + t.op)
	for i := range t.args {
		sb.WriteString(" " + a(i))
	}
	sb.WriteString(")")
	return sb.String()
}

func fpIdx(w int) string {
	if w == 32 {
		return "8 24"
	}
	return "11 53"
}

var _ = bits.Len
