package main

// Deferred symbolic-index reads: `v := s[i]` with symbolic i is merged into
// ite-terms when all candidate elements have the same shape; otherwise the
// engine falls back to forking on the index.

import (
	"fmt"
	"go/types"

	"golang.org/x/tools/go/ssa"
)

type SymPtr struct {
	elems Slice
	idx   *Term
	it    types.Type
}

// onlyLoaded reports whether every use of the address is a plain load.
func onlyLoaded(instr *ssa.IndexAddr) bool {
	refs := instr.Referrers()
	if refs == nil || len(*refs) == 0 {
		return false
	}
	for _, r := range *refs {
		u, ok := r.(*ssa.UnOp)
		if !ok || u.X != instr {
			if _, isDbg := r.(*ssa.DebugRef); isDbg {
				continue
			}
			return false
		}
	}
	return true
}

func (p *Path) boundsOnly(fr *frame, instr ssa.Instruction, idx *Term, n int) {
	ts := p.e.ts
	in := ts.BVCmp("bvult", idx, ts.BV(idx.sort.W, uint64(n)))
	if !p.Branch(in) {
		p.rtPanic(fr, instr, fmt.Sprintf("index out of range [symbolic] with length %d", n))
	}
}

// mergeVals returns ite(c, a, b) if the two values have a mergeable shape.
func (p *Path) mergeVals(c *Term, a, b Value) (Value, bool) {
	ts := p.e.ts
	switch x := a.(type) {
	case *Term:
		y, ok := b.(*Term)
		if !ok || x.sort != y.sort {
			return nil, false
		}
		return ts.Ite(c, x, y), true
	case *Str:
		y, ok := b.(*Str)
		if !ok || len(x.b) != len(y.b) || x.opaque || y.opaque {
			return nil, false
		}
		nb := make([]*Term, len(x.b))
		for i := range nb {
			nb[i] = ts.Ite(c, x.b[i], y.b[i])
		}
		return &Str{b: nb}, true
	case Struct:
		y, ok := b.(Struct)
		if !ok || len(x) != len(y) {
			return nil, false
		}
		out := make(Struct, len(x))
		for i := range x {
			v, ok := p.mergeVals(c, x[i], y[i])
			if !ok {
				return nil, false
			}
			out[i] = v
		}
		return out, true
	case Array:
		y, ok := b.(Array)
		if !ok || len(x) != len(y) {
			return nil, false
		}
		out := make(Array, len(x))
		for i := range x {
			v, ok := p.mergeVals(c, x[i], y[i])
			if !ok {
				return nil, false
			}
			out[i] = v
		}
		return out, true
	case Ptr:
		y, ok := b.(Ptr)
		return a, ok && x == y
	case *Map:
		y, ok := b.(*Map)
		return a, ok && x == y
	case *Chan:
		y, ok := b.(*Chan)
		return a, ok && x == y
	case Slice:
		y, ok := b.(Slice)
		if !ok || len(x) != len(y) || cap(x) != cap(y) {
			return nil, false
		}
		if len(x) == 0 && (x == nil) == (y == nil) {
			return a, true
		}
		if cap(x) > 0 && cap(y) > 0 && &x[:1][0] == &y[:1][0] {
			return a, true
		}
		return nil, false
	case Iface:
		y, ok := b.(Iface)
		if !ok {
			return nil, false
		}
		if x.T == nil && y.T == nil {
			return a, true
		}
		if x.T == nil || y.T == nil || !types.Identical(x.T, y.T) {
			return nil, false
		}
		v, ok := p.mergeVals(c, x.V, y.V)
		if !ok {
			return nil, false
		}
		return Iface{T: x.T, V: v}, true
	case *Closure:
		y, ok := b.(*Closure)
		return a, ok && x == y
	}
	return nil, false
}

func (p *Path) loadSym(fr *frame, instr ssa.Instruction, sp *SymPtr) Value {
	ts := p.e.ts
	n := len(sp.elems)
	merged := copyVal(sp.elems[n-1])
	ok := true
	for i := n - 2; i >= 0 && ok; i-- {
		c := ts.Eq(sp.idx, ts.BV(sp.idx.sort.W, uint64(i)))
		merged, ok = p.mergeVals(c, sp.elems[i], merged)
	}
	if ok {
		return merged
	}
	// shapes differ: fork on the index
	for i := 0; i < n-1; i++ {
		if p.Branch(ts.Eq(sp.idx, ts.BV(sp.idx.sort.W, uint64(i)))) {
			return copyVal(sp.elems[i])
		}
	}
	return copyVal(sp.elems[n-1])
}
