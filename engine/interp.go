package main

// Symbolic interpreter for go/ssa (structure follows x/tools/go/ssa/interp).

import (
	"fmt"
	"go/token"
	"go/types"
	"slices"
	"strings"

	"golang.org/x/tools/go/ssa"
)

type engineError string // unsupported construct: hard failure, never a silent skip

type targetPanic struct {
	v   Value  // the panic value (Iface) or nil
	msg string // rendered message
	pos string
}

// pathEnd aborts the current path (not an error of the target program).
type pathEnd struct {
	kind string // infeasible | unwind | steps | bound | deadlock | stop
	msg  string
}

type deferred struct {
	fn    Value
	args  []Value
	instr *ssa.Defer
	tail  *deferred
}

type frame struct {
	p                *Path
	th               *Thread
	caller           *frame
	fn               *ssa.Function
	block, prevBlock *ssa.BasicBlock
	env              map[ssa.Value]Value
	locals           []Value
	defers           *deferred
	result           Value
	panicking        bool
	panic            interface{}
	phitemps         []Value
	callpos          token.Pos
	visits           map[*ssa.BasicBlock]int
}

func (fr *frame) get(key ssa.Value) Value {
	switch key := key.(type) {
	case nil:
		return nil
	case *ssa.Function:
		return key
	case *ssa.Builtin:
		return key
	case *ssa.Const:
		return fr.p.e.constValue(key)
	case *ssa.Global:
		return fr.p.global(key)
	}
	if r, ok := fr.env[key]; ok {
		return r
	}
	panic(engineError(fmt.Sprintf("get: no value for %T: %v in %s", key, key.Name(), fr.fn)))
}

func (fr *frame) pos(instr ssa.Instruction) string {
	p := instr.Pos()
	if p == token.NoPos {
		// fall back to nearest positioned instruction in block
		for _, in := range instr.Block().Instrs {
			if in.Pos() != token.NoPos {
				p = in.Pos()
				if in == instr {
					break
				}
			}
		}
	}
	if p == token.NoPos {
		return fr.fn.String()
	}
	ps := fr.p.prog.Fset.Position(p)
	return fmt.Sprintf("%s:%d", shortPath(ps.Filename), ps.Line)
}

func shortPath(f string) string {
	for _, pre := range []string{"/repo/", "/root/go/pkg/mod/"} {
		if strings.HasPrefix(f, pre) {
			return f[len(pre):]
		}
	}
	if i := strings.Index(f, "/src/"); i >= 0 {
		return f[i+5:]
	}
	return f
}

func (fr *frame) runDefer(d *deferred) {
	var ok bool
	defer func() {
		if !ok {
			r := recover()
			switch r.(type) {
			case targetPanic:
				fr.panicking = true
				fr.panic = r
			default:
				panic(r) // pathEnd / engineError propagate
			}
		}
	}()
	fr.p.call(fr, d.instr.Pos(), d.fn, d.args)
	ok = true
}

func (fr *frame) runDefers() {
	for d := fr.defers; d != nil; d = d.tail {
		fr.runDefer(d)
	}
	fr.defers = nil
	if fr.panicking {
		panic(fr.panic)
	}
}

func (p *Path) rtPanic(fr *frame, instr ssa.Instruction, msg string) {
	pos := ""
	if fr != nil && instr != nil {
		pos = fr.pos(instr)
	}
	panic(targetPanic{msg: "runtime error: " + msg, pos: pos})
}

func (p *Path) visitInstr(fr *frame, instr ssa.Instruction) (ret bool) {
	p.steps++
	p.lastInstr, p.lastFrame = instr, fr
	if p.steps > p.cfg.MaxSteps {
		panic(pathEnd{"steps", fmt.Sprintf("step limit %d exceeded at %s", p.cfg.MaxSteps, fr.pos(instr))})
	}
	e := p.e
	ts := e.ts
	switch instr := instr.(type) {
	case *ssa.DebugRef:

	case *ssa.UnOp:
		fr.env[instr] = p.unop(fr, instr, fr.get(instr.X))

	case *ssa.BinOp:
		fr.env[instr] = p.binop(fr, instr, instr.Op, instr.X.Type(), fr.get(instr.X), fr.get(instr.Y))

	case *ssa.Call:
		fn, args := p.prepareCall(fr, instr, &instr.Call)
		fr.env[instr] = p.call(fr, instr.Pos(), fn, args)

	case *ssa.ChangeInterface:
		fr.env[instr] = fr.get(instr.X)

	case *ssa.ChangeType:
		fr.env[instr] = fr.get(instr.X)

	case *ssa.Convert:
		fr.env[instr] = p.conv(fr, instr, instr.Type(), instr.X.Type(), fr.get(instr.X))

	case *ssa.SliceToArrayPointer:
		panic(engineError("SliceToArrayPointer unsupported at " + fr.pos(instr)))

	case *ssa.MakeInterface:
		fr.env[instr] = Iface{T: instr.X.Type(), V: fr.get(instr.X)}

	case *ssa.Extract:
		fr.env[instr] = fr.get(instr.Tuple).(Tuple)[instr.Index]

	case *ssa.Slice:
		fr.env[instr] = p.sliceOp(fr, instr)

	case *ssa.Return:
		switch len(instr.Results) {
		case 0:
		case 1:
			fr.result = fr.get(instr.Results[0])
		default:
			var res Tuple
			for _, r := range instr.Results {
				res = append(res, fr.get(r))
			}
			fr.result = res
		}
		fr.block = nil
		return true

	case *ssa.RunDefers:
		fr.runDefers()

	case *ssa.Panic:
		v := fr.get(instr.X)
		panic(targetPanic{v: v, msg: p.panicText(v), pos: fr.pos(instr)})

	case *ssa.Send:
		p.chanSend(fr, instr, fr.get(instr.Chan).(*Chan), fr.get(instr.X))

	case *ssa.Store:
		addr := fr.get(instr.Addr).(Ptr)
		if addr == nil {
			p.rtPanic(fr, instr, "invalid memory address or nil pointer dereference")
		}
		p.memAccess(fr, instr, addr, true)
		storeInPlace(addr, fr.get(instr.Val))

	case *ssa.If:
		c := fr.get(instr.Cond).(*Term)
		succ := 1
		if p.branchAt(fr, instr, c) {
			succ = 0
		}
		fr.prevBlock, fr.block = fr.block, fr.block.Succs[succ]

	case *ssa.Jump:
		fr.prevBlock, fr.block = fr.block, fr.block.Succs[0]

	case *ssa.Defer:
		fn, args := p.prepareCall(fr, instr, &instr.Call)
		if instr.DeferStack != nil {
			panic(engineError("defer with explicit DeferStack unsupported"))
		}
		fr.defers = &deferred{fn: fn, args: args, instr: instr, tail: fr.defers}

	case *ssa.Go:
		fn, args := p.prepareCall(fr, instr, &instr.Call)
		p.spawn(fr, instr, fn, args)

	case *ssa.MakeChan:
		sz := p.concretize(fr, instr, fr.get(instr.Size).(*Term), 1<<20)
		p.nchan++
		fr.env[instr] = &Chan{id: p.nchan, cap: sz, et: instr.Type().Underlying().(*types.Chan).Elem(), name: fr.pos(instr)}

	case *ssa.Alloc:
		var addr Ptr
		if instr.Heap {
			addr = new(Value)
			fr.env[instr] = addr
		} else {
			addr = fr.env[instr].(Ptr)
		}
		*addr = e.zero(deref(instr.Type()))

	case *ssa.MakeSlice:
		cp := p.concretize(fr, instr, fr.get(instr.Cap).(*Term), p.cfg.MaxAlloc)
		ln := p.concretize(fr, instr, fr.get(instr.Len).(*Term), p.cfg.MaxAlloc)
		if ln > cp {
			p.rtPanic(fr, instr, "makeslice: cap out of range")
		}
		s := make(Slice, cp)
		tElt := instr.Type().Underlying().(*types.Slice).Elem()
		for i := range s {
			s[i] = e.zero(tElt)
		}
		fr.env[instr] = s[:ln]

	case *ssa.MakeMap:
		mt := instr.Type().Underlying().(*types.Map)
		fr.env[instr] = &Map{kt: mt.Key(), vt: mt.Elem()}

	case *ssa.Range:
		fr.env[instr] = p.rangeIter(fr, instr, fr.get(instr.X))

	case *ssa.Next:
		fr.env[instr] = fr.get(instr.Iter).(iterator).next(p, fr, instr)

	case *ssa.FieldAddr:
		x := fr.get(instr.X).(Ptr)
		if x == nil {
			p.rtPanic(fr, instr, "invalid memory address or nil pointer dereference")
		}
		fr.env[instr] = Ptr(&(*x).(Struct)[instr.Field])

	case *ssa.Field:
		fr.env[instr] = fr.get(instr.X).(Struct)[instr.Field]

	case *ssa.IndexAddr:
		x := fr.get(instr.X)
		idx := fr.get(instr.Index).(*Term)
		switch x := x.(type) {
		case Slice:
			if !idx.isConst && len(x) > 1 && onlyLoaded(instr) {
				// read-only use through a symbolic index: defer the choice, the load merges the candidates
				p.boundsOnly(fr, instr, idx, len(x))
				fr.env[instr] = &SymPtr{elems: x, idx: idx, it: instr.Index.Type()}
				break
			}
			i := p.boundsIndex(fr, instr, idx, instr.Index.Type(), len(x))
			fr.env[instr] = Ptr(&x[i])
		case Ptr:
			if x == nil {
				p.rtPanic(fr, instr, "invalid memory address or nil pointer dereference")
			}
			a := (*x).(Array)
			i := p.boundsIndex(fr, instr, idx, instr.Index.Type(), len(a))
			fr.env[instr] = Ptr(&a[i])
		default:
			panic(engineError(fmt.Sprintf("IndexAddr on %T", x)))
		}

	case *ssa.Index:
		x := fr.get(instr.X)
		idx := fr.get(instr.Index).(*Term)
		switch x := x.(type) {
		case Array:
			i := p.boundsIndex(fr, instr, idx, instr.Index.Type(), len(x))
			fr.env[instr] = copyVal(x[i])
		case *Str:
			fr.env[instr] = p.strIndex(fr, instr, x, idx, instr.Index.Type())
		default:
			panic(engineError(fmt.Sprintf("Index on %T", x)))
		}

	case *ssa.Lookup:
		fr.env[instr] = p.lookup(fr, instr, fr.get(instr.X), fr.get(instr.Index))

	case *ssa.MapUpdate:
		m := fr.get(instr.Map).(*Map)
		if m == nil {
			panic(targetPanic{msg: "assignment to entry in nil map", pos: fr.pos(instr)})
		}
		p.mapUpdate(fr, instr, m, fr.get(instr.Key), copyVal(fr.get(instr.Value)))

	case *ssa.TypeAssert:
		fr.env[instr] = p.typeAssert(fr, instr, fr.get(instr.X).(Iface))

	case *ssa.MakeClosure:
		var bindings []Value
		for _, b := range instr.Bindings {
			bindings = append(bindings, fr.get(b))
		}
		fr.env[instr] = &Closure{instr.Fn.(*ssa.Function), bindings}

	case *ssa.Phi:
		panic(engineError("phi reached"))

	case *ssa.Select:
		fr.env[instr] = p.selectOp(fr, instr)

	default:
		panic(engineError(fmt.Sprintf("unexpected instruction: %T at %s", instr, fr.pos(instr))))
	}
	_ = ts
	return false
}

func deref(t types.Type) types.Type {
	if p, ok := t.Underlying().(*types.Pointer); ok {
		return p.Elem()
	}
	panic(engineError(fmt.Sprintf("deref of non-pointer %v", t)))
}

func (p *Path) prepareCall(fr *frame, site ssa.Instruction, call *ssa.CallCommon) (fn Value, args []Value) {
	v := fr.get(call.Value)
	if call.Method == nil {
		fn = v
	} else {
		recv := v.(Iface)
		if recv.T == nil {
			p.rtPanic(fr, site, "invalid memory address or nil pointer dereference (method "+call.Method.Name()+" on nil interface)")
		}
		f := p.prog.LookupMethod(recv.T, call.Method.Pkg(), call.Method.Name())
		if f == nil {
			panic(engineError(fmt.Sprintf("method set for dynamic type %v does not contain %s", recv.T, call.Method)))
		}
		fn = f
		args = append(args, recv.V)
	}
	for _, arg := range call.Args {
		args = append(args, fr.get(arg))
	}
	return
}

func (p *Path) call(caller *frame, callpos token.Pos, fn Value, args []Value) Value {
	switch fn := fn.(type) {
	case *ssa.Function:
		if fn == nil {
			panic(targetPanic{msg: "call of nil function"})
		}
		return p.callSSA(caller, callpos, fn, args, nil)
	case *Closure:
		if fn == nil {
			panic(targetPanic{msg: "runtime error: invalid memory address or nil pointer dereference (call of nil func)"})
		}
		return p.callSSA(caller, callpos, fn.Fn, args, fn.Env)
	case *ssa.Builtin:
		return p.callBuiltin(caller, callpos, fn, args)
	}
	panic(engineError(fmt.Sprintf("cannot call %T", fn)))
}

func (p *Path) callSSA(caller *frame, callpos token.Pos, fn *ssa.Function, args []Value, env []Value) Value {
	fr := &frame{p: p, caller: caller, fn: fn, callpos: callpos}
	if caller != nil {
		fr.th = caller.th
	} else {
		fr.th = p.cur
	}
	p.depth++
	defer func() { p.depth-- }()
	if p.depth > 400 {
		panic(engineError("call depth exceeded in " + fn.String()))
	}
	name := fn.String()
	if ov, ok := p.cfg.Overrides[name]; ok {
		tgt := p.lookupFunc(ov)
		return p.callSSA(caller, callpos, tgt, args, nil)
	}
	if ext := p.external(fn, name); ext != nil {
		return ext(p, fr, args)
	}
	if fn.Blocks == nil {
		panic(engineError("no code for function: " + name + " (called from " + callerName(caller) + ")"))
	}
	if fn.TypeParams().Len() > 0 && len(fn.TypeArgs()) == 0 {
		panic(engineError("uninstantiated generic " + name))
	}
	p.encoded[fnKey(fn)]++
	fr.env = make(map[ssa.Value]Value)
	fr.block = fn.Blocks[0]
	fr.locals = make([]Value, len(fn.Locals))
	for i, l := range fn.Locals {
		fr.locals[i] = p.e.zero(deref(l.Type()))
		fr.env[l] = Ptr(&fr.locals[i])
	}
	for i, prm := range fn.Params {
		fr.env[prm] = args[i]
	}
	for i, fv := range fn.FreeVars {
		fr.env[fv] = env[i]
	}
	for fr.block != nil {
		p.runFrame(fr)
	}
	return fr.result
}

func callerName(fr *frame) string {
	if fr == nil {
		return "<top>"
	}
	return fr.fn.String()
}

func fnKey(fn *ssa.Function) string {
	return fn.String()
}

func (p *Path) runFrame(fr *frame) {
	defer func() {
		if fr.block == nil {
			return
		}
		r := recover()
		tp, ok := r.(targetPanic)
		if !ok {
			panic(r) // engineError, pathEnd, or Go runtime bug in the engine
		}
		fr.panicking = true
		fr.panic = tp
		fr.runDefers() // re-panics unless recovered
		fr.block = fr.fn.Recover
		if fr.block == nil {
			// recovered in a function without named results: return zero
			fr.result = p.e.zero(fr.fn.Signature.Results())
			if fr.fn.Signature.Results().Len() == 0 {
				fr.result = nil
			}
		}
	}()
	for {
		nonPhis := p.executePhis(fr)
		for _, instr := range nonPhis {
			if p.visitInstr(fr, instr) {
				return
			}
		}
	}
}

func (p *Path) executePhis(fr *frame) []ssa.Instruction {
	firstNonPhi := -1
	for i, instr := range fr.block.Instrs {
		if _, ok := instr.(*ssa.Phi); !ok {
			firstNonPhi = i
			break
		}
	}
	nonPhis := fr.block.Instrs[firstNonPhi:]
	if firstNonPhi > 0 {
		phis := fr.block.Instrs[:firstNonPhi]
		predIndex := slices.Index(fr.block.Preds, fr.prevBlock)
		fr.phitemps = fr.phitemps[:0]
		for _, phi := range phis {
			fr.phitemps = append(fr.phitemps, fr.get(phi.(*ssa.Phi).Edges[predIndex]))
		}
		for i, phi := range phis {
			fr.env[phi.(*ssa.Phi)] = fr.phitemps[i]
		}
	}
	return nonPhis
}

func (p *Path) doRecover(caller *frame) Value {
	if caller != nil && !caller.panicking && caller.caller != nil && caller.caller.panicking {
		caller.caller.panicking = false
		pv := caller.caller.panic
		caller.caller.panic = nil
		if tp, ok := pv.(targetPanic); ok {
			if tp.v != nil {
				return tp.v
			}
			return p.errorValue(p.e.strOf(tp.msg))
		}
	}
	return Iface{}
}

func (p *Path) panicText(v Value) string {
	if ifc, ok := v.(Iface); ok {
		switch x := ifc.V.(type) {
		case *Str:
			if s, ok := x.Concrete(); ok {
				return s
			}
			return "<symbolic string>"
		case Ptr:
			if x != nil {
				if st, ok := (*x).(Struct); ok && len(st) > 0 {
					if s, ok := st[0].(*Str); ok {
						if cs, ok := s.Concrete(); ok {
							return fmt.Sprintf("%v: %s", ifc.T, cs)
						}
					}
				}
			}
		}
		if ifc.T != nil {
			return fmt.Sprintf("panic(%v)", ifc.T)
		}
	}
	return "panic"
}

// storeInPlace assigns v to *addr. Structs and arrays are copied element-wise
// INTO the existing cells, because interior pointers (&x.f, &a[i]) taken before
// the store must keep designating the same variable (go/ssa initialises
// "*p = T{...}" as: take field addresses, store the zero value, store the fields).
func storeInPlace(addr Ptr, v Value) {
	switch nv := v.(type) {
	case Struct:
		if old, ok := (*addr).(Struct); ok && len(old) == len(nv) {
			for i := range nv {
				storeInPlace(Ptr(&old[i]), nv[i])
			}
			return
		}
	case Array:
		if old, ok := (*addr).(Array); ok && len(old) == len(nv) {
			for i := range nv {
				storeInPlace(Ptr(&old[i]), nv[i])
			}
			return
		}
	}
	*addr = copyVal(v)
}
