package main

// Models of package time: a symbolic monotone clock and timers whose firing is a free choice.

import (
	"fmt"
	"go/types"
)

const hasMonotonic = uint64(1) << 63

func init() {
	externals["time.Now"] = func(p *Path, fr *frame, a []Value) Value { return p.timeNow() }
	externals["time.Since"] = func(p *Path, fr *frame, a []Value) Value {
		now := p.timeNow()
		return p.call(fr, 0, p.lookupFunc("(time.Time).Sub"), []Value{now, a[0]})
	}
	externals["time.Until"] = func(p *Path, fr *frame, a []Value) Value {
		now := p.timeNow()
		return p.call(fr, 0, p.lookupFunc("(time.Time).Sub"), []Value{a[0], now})
	}
	externals["time.After"] = func(p *Path, fr *frame, a []Value) Value { return p.newTimerChan(false, "time.After") }
	externals["time.Tick"] = func(p *Path, fr *frame, a []Value) Value { return p.newTimerChan(true, "time.Tick") }
	externals["time.NewTimer"] = func(p *Path, fr *frame, a []Value) Value {
		ch := p.newTimerChan(false, "time.NewTimer")
		return p.timerStruct("Timer", ch)
	}
	externals["time.NewTicker"] = func(p *Path, fr *frame, a []Value) Value {
		ch := p.newTimerChan(true, "time.NewTicker")
		return p.timerStruct("Ticker", ch)
	}
	externals["(*time.Timer).Stop"] = func(p *Path, fr *frame, a []Value) Value {
		st := (*a[0].(Ptr)).(Struct)
		if ch, ok := st[0].(*Chan); ok && ch != nil {
			was := !ch.timer.fired && !ch.timer.stopped
			ch.timer.stopped = true
			return p.e.ts.Bool(was)
		}
		// AfterFunc timer: field 0 is nil chan; state kept in side table
		if af := p.afterFuncs[a[0].(Ptr)]; af != nil {
			was := !af.started && !af.stopped
			af.stopped = true
			return p.e.ts.Bool(was)
		}
		return p.e.ts.False
	}
	externals["(*time.Timer).Reset"] = func(p *Path, fr *frame, a []Value) Value {
		st := (*a[0].(Ptr)).(Struct)
		if ch, ok := st[0].(*Chan); ok && ch != nil {
			was := !ch.timer.fired && !ch.timer.stopped
			ch.timer.fired = false
			ch.timer.stopped = false
			return p.e.ts.Bool(was)
		}
		panic(engineError("Reset on AfterFunc timer unsupported"))
	}
	externals["(*time.Ticker).Stop"] = func(p *Path, fr *frame, a []Value) Value {
		st := (*a[0].(Ptr)).(Struct)
		if ch, ok := st[0].(*Chan); ok && ch != nil {
			ch.timer.stopped = true
		}
		return nil
	}
	externals["time.AfterFunc"] = func(p *Path, fr *frame, a []Value) Value {
		tm := p.timerStruct("Timer", (*Chan)(nil))
		af := &afterFunc{}
		if p.afterFuncs == nil {
			p.afterFuncs = map[Ptr]*afterFunc{}
		}
		p.afterFuncs[tm] = af
		fn := a[1]
		if !p.cfg.Sched {
			p.spawned = append(p.spawned, &spawnRec{fn: fn, pos: "time.AfterFunc", name: "time.AfterFunc:" + calleeName(fn)})
			return tm
		}
		th := p.newThread("AfterFunc", fn, nil)
		th.blocked = func() bool {
			if af.stopped {
				return false
			}
			if _, held := p.ghost["holdTimers"]; held {
				return false
			}
			return true
		}
		th.onStart = func() { af.started = true }
		p.startThread(th, false)
		return tm
	}
}

func init() {
	intrinsics["vfFixClock"] = func(p *Path, fr *frame, a []Value) Value { p.ghost["fixedClock"] = true; return nil }
	intrinsics["vfHoldTimers"] = func(p *Path, fr *frame, a []Value) Value { p.ghost["holdTimers"] = true; return nil }
	intrinsics["vfReleaseTimers"] = func(p *Path, fr *frame, a []Value) Value { delete(p.ghost, "holdTimers"); return nil }
}

type afterFunc struct {
	started, stopped bool
}

func (p *Path) newTimerChan(periodic bool, name string) *Chan {
	p.nchan++
	return &Chan{id: p.nchan, cap: 1, et: p.h.prog.timeType, name: fmt.Sprintf("%s#%d", name, p.nchan), timer: &timerState{periodic: periodic}}
}

func (p *Path) timerStruct(tname string, ch *Chan) Ptr {
	tt := p.prog.ImportedPackage("time").Type(tname).Type()
	st := p.e.zero(tt).(Struct)
	st[0] = ch
	cell := new(Value)
	*cell = st
	return cell
}

// timeNow returns a time.Time carrying a symbolic, non-decreasing monotonic reading.
func (p *Path) timeNow() Value {
	ts := p.e.ts
	if _, fixed := p.ghost["fixedClock"]; fixed {
		// the harness declared elapsed time irrelevant: the clock stands still
		return p.mkTime(ts.BV(64, 1000000000))
	}
	t := p.newInput("time.Now", BVSort(64))
	// 0 <= prev <= t < 2^62
	lo := ts.BV(64, 0)
	if p.clock != nil {
		lo = p.clock
	}
	p.assumeQuiet(ts.And(ts.BVCmp("bvsle", lo, t), ts.BVCmp("bvslt", t, ts.BV(64, 1<<62))))
	p.clock = t
	return p.mkTime(t)
}

func (p *Path) mkTime(mono *Term) Value {
	st := p.e.zero(p.h.prog.timeType).(Struct)
	// wall: hasMonotonic | (1<<30) seconds-since-1885 field, ext: monotonic ns, loc: nil
	st[0] = p.e.ts.BV(64, hasMonotonic|(uint64(4000000000)<<30))
	st[1] = mono
	return st
}

// assumeQuiet adds a constraint that is known to be satisfiable (environment contract).
func (p *Path) assumeQuiet(c *Term) {
	p.addPC(c)
}

var _ = types.Identical
