package main

// Long-lived SMT solver processes spoken to in SMT-LIB2 over pipes.

import (
	"bufio"
	"fmt"
	"io"
	"os"
	"os/exec"
	"strconv"
	"strings"
	"time"
)

type Solver struct {
	kind    string // z3 | z3new | cvc5 | cvc5int
	ts      *TermStore
	cmd     *exec.Cmd
	in      io.WriteCloser
	out     *bufio.Reader
	defined map[int]int // term id -> level at which defined
	levels  [][]int     // ids defined per level
	stack   [][]*Term   // mirror of assertion stack (for restart)
	timeout time.Duration
	fpSolver string // solver of the one-shot float queries: "" (z3 4.8.12), "z3new", "cvc5"
	lazyFP   bool // float constraints are kept off the incremental solver: feasibility probes over-approximate (ignore them), verdicts are decided one-shot on the full path condition
	arithMemo map[int]bool
	feasMode bool // the next one-shot query is a feasibility probe: short time limit, unknown keeps the path
	logf    *os.File

	Queries  int
	Unknowns int
	Time     time.Duration
	Errors   []string
}

func solverArgv(kind string, timeout time.Duration) []string {
	ms := strconv.Itoa(int(timeout / time.Millisecond))
	switch kind {
	case "z3":
		return []string{"/usr/bin/z3", "-in", "-t:" + ms}
	case "z3new":
		return []string{"z3-new", "-in", "-t:" + ms}
	case "cvc5":
		return []string{"/usr/bin/cvc5", "--incremental", "--produce-models", "--tlimit-per=" + ms}
	case "cvc5int":
		return []string{"/usr/bin/cvc5", "--incremental", "--produce-models", "--solve-bv-as-int=sum", "--tlimit-per=" + ms}
	}
	panic("unknown solver " + kind)
}

func NewSolver(kind string, ts *TermStore, timeout time.Duration) *Solver {
	s := &Solver{kind: kind, ts: ts, timeout: timeout, defined: map[int]int{}}
	if p := os.Getenv("VERIF_SMTLOG"); p != "" {
		s.logf, _ = os.OpenFile(fmt.Sprintf("%s.%s.%d.smt2", p, kind, os.Getpid()), os.O_CREATE|os.O_WRONLY|os.O_APPEND, 0644)
	}
	s.start()
	return s
}

func (s *Solver) start() {
	argv := solverArgv(s.kind, s.timeout)
	s.cmd = exec.Command(argv[0], argv[1:]...)
	in, _ := s.cmd.StdinPipe()
	out, _ := s.cmd.StdoutPipe()
	s.cmd.Stderr = s.cmd.Stdout
	if err := s.cmd.Start(); err != nil {
		panic("cannot start solver: " + err.Error())
	}
	s.in = in
	s.out = bufio.NewReaderSize(out, 1<<20)
	s.defined = map[int]int{}
	s.levels = [][]int{nil}
	if strings.HasPrefix(s.kind, "cvc5") {
		s.send("(set-logic ALL)")
	}
	s.send("(set-option :produce-models true)")
}

func (s *Solver) Close() {
	if s.cmd != nil {
		s.in.Close()
		s.cmd.Process.Kill()
		s.cmd.Wait()
		s.cmd = nil
	}
	if s.logf != nil {
		s.logf.Close()
	}
}

func (s *Solver) restart() {
	s.in.Close()
	s.cmd.Process.Kill()
	s.cmd.Wait()
	s.start()
	st := s.stack
	s.stack = nil
	for i, lvl := range st {
		if i > 0 {
			s.Push()
		} else {
			s.stack = [][]*Term{nil}
		}
		for _, t := range lvl {
			s.Assert(t)
		}
	}
}

func (s *Solver) send(line string) {
	if s.logf != nil {
		fmt.Fprintln(s.logf, line)
	}
	io.WriteString(s.in, line+"\n")
}

func (s *Solver) level() int { return len(s.levels) - 1 }

func (s *Solver) Push() {
	s.send("(push 1)")
	s.levels = append(s.levels, nil)
	if s.stack == nil {
		s.stack = [][]*Term{nil}
	}
	s.stack = append(s.stack, nil)
}

func (s *Solver) Pop() {
	s.send("(pop 1)")
	top := s.levels[len(s.levels)-1]
	for _, id := range top {
		delete(s.defined, id)
	}
	s.levels = s.levels[:len(s.levels)-1]
	s.stack = s.stack[:len(s.stack)-1]
}

func (s *Solver) markDefined(id int) {
	s.defined[id] = s.level()
	s.levels[len(s.levels)-1] = append(s.levels[len(s.levels)-1], id)
}

func (s *Solver) define(t *Term) {
	if t.isConst {
		return
	}
	if _, ok := s.defined[t.id]; ok {
		return
	}
	for _, a := range t.args {
		s.define(a)
	}
	if t.op == "var" {
		s.send(fmt.Sprintf("(declare-const %s %s)", quoteSym(t.name), t.sort))
	} else {
		s.send(fmt.Sprintf("(define-fun t%d () %s %s)", t.id, t.sort, defText(t)))
	}
	s.markDefined(t.id)
}

func (s *Solver) Assert(t *Term) {
	if s.stack == nil {
		s.stack = [][]*Term{nil}
	}
	s.stack[len(s.stack)-1] = append(s.stack[len(s.stack)-1], t)
	if s.lazyFP && termHasFPArith(t, map[int]bool{}) {
		return
	}
	s.define(t)
	s.send("(assert " + ref(t) + ")")
}

// readLine reads one response line with a watchdog.
func (s *Solver) readLine() (string, bool) {
	type res struct {
		l   string
		err error
	}
	ch := make(chan res, 1)
	go func() {
		l, err := s.out.ReadString('\n')
		ch <- res{l, err}
	}()
	select {
	case r := <-ch:
		if r.err != nil {
			return "", false
		}
		return strings.TrimSpace(r.l), true
	case <-time.After(s.timeout + 15*time.Second):
		return "", false
	}
}

// Check runs (check-sat) on the current assertion stack.
func (s *Solver) Check() string {
	if s.usesFP() && !(s.lazyFP && s.feasMode) {
		r, _ := s.oneShot(nil)
		return r
	}
	t0 := time.Now()
	s.Queries++
	s.send("(check-sat)")
	res := "unknown"
	for {
		l, ok := s.readLine()
		if !ok {
			s.Errors = append(s.Errors, "solver died or hung; restarted")
			s.restart()
			res = "unknown"
			break
		}
		if l == "" {
			continue
		}
		if l == "sat" || l == "unsat" || l == "unknown" || l == "timeout" {
			if l == "timeout" {
				l = "unknown"
			}
			res = l
			break
		}
		if strings.HasPrefix(l, "(error \"") {
			s.Errors = append(s.Errors, l)
			// keep reading: the verdict line still follows, but it is not trusted
			res = "error"
			continue
		}
		// other noise (e.g. cvc5 "(interrupted by timeout)")
		if strings.Contains(l, "timeout") || strings.Contains(l, "interrupted") {
			continue
		}
		s.Errors = append(s.Errors, "unexpected solver output: "+l)
	}
	if len(s.Errors) > 0 && res != "unknown" {
		// any error line makes the query inconclusive
		last := s.Errors[len(s.Errors)-1]
		if strings.HasPrefix(last, "(error") && time.Since(t0) < time.Hour {
			// only treat as tainted if the error arrived during this query
		}
	}
	if res == "error" {
		res = "unknown"
	}
	if res == "unknown" {
		s.Unknowns++
	}
	s.Time += time.Since(t0)
	return res
}

// CheckWith asks whether the current stack plus the extra terms is satisfiable.
func (s *Solver) CheckWith(extra ...*Term) string {
	s.feasMode = true
	defer func() { s.feasMode = false }()
	if s.lazyFP {
		for _, t := range extra {
			if termHasFPArith(t, map[int]bool{}) {
				return "sat" // not probed: both sides of a float branch are explored; verdict queries see the full path condition
			}
		}
	}
	nerr := len(s.Errors)
	s.Push()
	for _, t := range extra {
		s.Assert(t)
	}
	r := s.Check()
	if len(s.Errors) > nerr {
		r = "unknown"
	}
	s.Pop()
	return r
}

// CheckModel is CheckWith that also returns values for vars when sat.
func (s *Solver) CheckModel(vars []*Term, extra ...*Term) (string, map[string]uint64) {
	nerr := len(s.Errors)
	s.Push()
	for _, t := range extra {
		s.Assert(t)
	}
	for _, v := range vars {
		s.define(v)
	}
	if s.usesFP() {
		r, vals := s.oneShot(vars)
		var m map[string]uint64
		if r == "sat" {
			m = map[string]uint64{}
			for i, v := range vars {
				m[v.name] = vals[i]
			}
		}
		if len(s.Errors) > nerr {
			r = "unknown"
		}
		s.Pop()
		return r, m
	}
	r := s.Check()
	if len(s.Errors) > nerr {
		r = "unknown"
	}
	var m map[string]uint64
	if r == "sat" {
		m = s.getValues(vars)
		if m == nil {
			r = "unknown"
		}
	}
	s.Pop()
	return r, m
}

// EvalTerm returns some value the term can take under the current assertion stack.
func (s *Solver) EvalTerm(t *Term) (uint64, bool) {
	nerr := len(s.Errors)
	s.Push()
	defer s.Pop()
	s.define(t)
	if s.usesFP() {
		r, vals := s.oneShot([]*Term{t})
		if r != "sat" || len(vals) != 1 || len(s.Errors) > nerr {
			return 0, false
		}
		return vals[0], true
	}
	if r := s.Check(); r != "sat" || len(s.Errors) > nerr {
		return 0, false
	}
	probe := &Term{op: "var", name: "\x00eval", sort: t.sort}
	_ = probe
	m := s.getValuesRef([]string{ref(t)})
	if m == nil {
		return 0, false
	}
	return m[0], true
}

func (s *Solver) getValuesRef(refs []string) []uint64 {
	s.send("(get-value (" + strings.Join(refs, " ") + "))")
	var buf strings.Builder
	depth := 0
	started := false
	for {
		l, ok := s.readLine()
		if !ok {
			s.Errors = append(s.Errors, "solver died in get-value")
			s.restart()
			return nil
		}
		if strings.HasPrefix(l, "(error \"") {
			s.Errors = append(s.Errors, l)
			return nil
		}
		for _, c := range l {
			if c == '(' {
				depth++
				started = true
			} else if c == ')' {
				depth--
			}
		}
		buf.WriteString(l + " ")
		if started && depth == 0 {
			break
		}
	}
	sx := parseSexp(buf.String())
	if sx == nil || len(sx.list) != len(refs) {
		return nil
	}
	out := make([]uint64, len(refs))
	for i, pair := range sx.list {
		if len(pair.list) != 2 {
			return nil
		}
		v, ok := sexpValue(pair.list[1])
		if !ok {
			return nil
		}
		out[i] = v
	}
	return out
}

func (s *Solver) getValues(vars []*Term) map[string]uint64 {
	m := map[string]uint64{}
	if len(vars) == 0 {
		return m
	}
	var sb strings.Builder
	sb.WriteString("(get-value (")
	for _, v := range vars {
		sb.WriteString(ref(v) + " ")
	}
	sb.WriteString("))")
	s.send(sb.String())
	// read a balanced s-expression
	var buf strings.Builder
	depth := 0
	started := false
	for {
		l, ok := s.readLine()
		if !ok {
			s.Errors = append(s.Errors, "solver died in get-value")
			s.restart()
			return nil
		}
		if strings.HasPrefix(l, "(error \"") {
			s.Errors = append(s.Errors, l)
			return nil
		}
		inq := false
		for _, c := range l {
			if c == '|' {
				inq = !inq
			}
			if inq {
				continue
			}
			if c == '(' {
				depth++
				started = true
			} else if c == ')' {
				depth--
			}
		}
		buf.WriteString(l + " ")
		if started && depth == 0 {
			break
		}
	}
	sx := parseSexp(buf.String())
	if sx == nil {
		return nil
	}
	for i, pair := range sx.list {
		if len(pair.list) != 2 || i >= len(vars) {
			continue
		}
		v := vars[i]
		val, ok := sexpValue(pair.list[1])
		if !ok {
			s.Errors = append(s.Errors, "cannot parse model value for "+v.name)
			return nil
		}
		m[v.name] = val
	}
	return m
}

type sexp struct {
	atom string
	list []*sexp
	isL  bool
}

func parseSexp(s string) *sexp {
	pos := 0
	var parse func() *sexp
	skip := func() {
		for pos < len(s) && (s[pos] == ' ' || s[pos] == '\n' || s[pos] == '\t' || s[pos] == '\r') {
			pos++
		}
	}
	parse = func() *sexp {
		skip()
		if pos >= len(s) {
			return nil
		}
		if s[pos] == '(' {
			pos++
			n := &sexp{isL: true}
			for {
				skip()
				if pos >= len(s) {
					return n
				}
				if s[pos] == ')' {
					pos++
					return n
				}
				c := parse()
				if c == nil {
					return n
				}
				n.list = append(n.list, c)
			}
		}
		st := pos
		if s[pos] == '|' {
			pos++
			for pos < len(s) && s[pos] != '|' {
				pos++
			}
			pos++
			return &sexp{atom: s[st:pos]}
		}
		for pos < len(s) && s[pos] != ' ' && s[pos] != ')' && s[pos] != '(' && s[pos] != '\n' {
			pos++
		}
		return &sexp{atom: s[st:pos]}
	}
	return parse()
}

func sexpValue(x *sexp) (uint64, bool) {
	if !x.isL {
		a := x.atom
		switch {
		case a == "true":
			return 1, true
		case a == "false":
			return 0, true
		case strings.HasPrefix(a, "#x"):
			v, err := strconv.ParseUint(a[2:], 16, 64)
			return v, err == nil
		case strings.HasPrefix(a, "#b"):
			v, err := strconv.ParseUint(a[2:], 2, 64)
			return v, err == nil
		}
		return 0, false
	}
	// (_ bvN w)
	if len(x.list) == 3 && x.list[0].atom == "_" && strings.HasPrefix(x.list[1].atom, "bv") {
		v, err := strconv.ParseUint(x.list[1].atom[2:], 10, 64)
		return v, err == nil
	}
	return 0, false
}

// ---- one-shot mode for floating point ------------------------------------------------
//
// z3's incremental core is far slower on IEEE floats than its one-shot
// strategy (the standalone DistanceTo queries finish in <1 s but time out
// incrementally), so a problem that mentions a float is replayed, flattened,
// into a fresh solver process.

func termHasFP(t *Term, seen map[int]bool) bool {
	if seen[t.id] {
		return false
	}
	seen[t.id] = true
	if t.sort.K == SFP {
		return true
	}
	for _, a := range t.args {
		if termHasFP(a, seen) {
			return true
		}
	}
	return false
}

// termHasFPArith: float arithmetic (as opposed to classification predicates and
// comparisons of variables and constants, which the incremental core handles well).
func termHasFPArith(t *Term, seen map[int]bool) bool {
	if seen[t.id] {
		return false
	}
	seen[t.id] = true
	switch t.op {
	case "fp.add", "fp.sub", "fp.mul", "fp.div", "fp.sqrt", "fp.fma", "fp.rem", "fp.roundToIntegral", "fp.to_sbv", "fp.to_ubv", "to_fp_signed", "to_fp_unsigned", "fp.to_fp":
		return true
	}
	for _, a := range t.args {
		if termHasFPArith(a, seen) {
			return true
		}
	}
	return false
}

// hasArith memoises termHasFPArith per term (terms are hash-consed and immutable).
func (s *Solver) hasArith(t *Term) bool {
	if s.arithMemo == nil {
		s.arithMemo = map[int]bool{}
	}
	if v, ok := s.arithMemo[t.id]; ok {
		return v
	}
	v := termHasFPArith(t, map[int]bool{})
	s.arithMemo[t.id] = v
	return v
}

func (s *Solver) usesFP() bool {
	if s.kind != "z3" && s.kind != "z3new" {
		return false
	}
	for _, lvl := range s.stack {
		for _, t := range lvl {
			if s.hasArith(t) {
				return true
			}
		}
	}
	return false
}

func (s *Solver) usesFPSlow() bool {
	if s.kind != "z3" && s.kind != "z3new" {
		return false
	}
	// only float ARITHMETIC needs the one-shot strategy; classification predicates and
	// comparisons of variables are handled well by the incremental core
	seen := map[int]bool{}
	for _, lvl := range s.stack {
		for _, t := range lvl {
			if termHasFPArith(t, seen) {
				return true
			}
		}
	}
	return false
}

// oneShot solves the current assertion stack in a fresh process and, if sat,
// returns the values of the given terms.
func (s *Solver) oneShot(vals []*Term) (string, []uint64) {
	t0 := time.Now()
	s.Queries++
	var sb strings.Builder
	sb.WriteString("(set-option :produce-models true)\n")
	defined := map[int]bool{}
	var def func(t *Term)
	def = func(t *Term) {
		if t.isConst || defined[t.id] {
			return
		}
		defined[t.id] = true
		for _, a := range t.args {
			def(a)
		}
		if t.op == "var" {
			fmt.Fprintf(&sb, "(declare-const %s %s)\n", quoteSym(t.name), t.sort)
		} else {
			fmt.Fprintf(&sb, "(define-fun t%d () %s %s)\n", t.id, t.sort, defText(t))
		}
	}
	for _, lvl := range s.stack {
		for _, t := range lvl {
			def(t)
			fmt.Fprintf(&sb, "(assert %s)\n", ref(t))
		}
	}
	for _, v := range vals {
		def(v)
	}
	sb.WriteString("(check-sat)\n")
	if len(vals) > 0 {
		sb.WriteString("(get-value (")
		for _, v := range vals {
			sb.WriteString(ref(v) + " ")
		}
		sb.WriteString("))\n")
	}
	if s.logf != nil {
		fmt.Fprintf(s.logf, "; ---- one-shot ----\n%s; ---- end ----\n", sb.String())
	}
	bin := "/usr/bin/z3"
	if s.kind == "z3new" || s.fpSolver == "z3new" {
		bin = "z3-new"
	}
	secs := int(s.timeout/time.Second) + 1
	if s.feasMode && secs > 4 {
		secs = 4
	}
	cmd := exec.Command(bin, "-in", "-T:"+strconv.Itoa(secs))
	cmd.Stdin = strings.NewReader(sb.String())
	if s.fpSolver == "cvc5" {
		cmd = exec.Command("cvc5", "--lang=smt2", "--tlimit="+strconv.Itoa(secs*1000))
		cmd.Stdin = strings.NewReader("(set-logic ALL)\n" + sb.String())
	}
	out, _ := cmd.Output()
	s.Time += time.Since(t0)
	text := string(out)
	lines := strings.SplitN(strings.TrimSpace(text), "\n", 2)
	res := "unknown"
	if len(lines) > 0 {
		switch strings.TrimSpace(lines[0]) {
		case "sat":
			res = "sat"
		case "unsat":
			res = "unsat"
		}
	}
	if strings.Contains(text, "(error \"") && res != "unsat" {
		// errors after an unsat verdict are only the refused get-value
		s.Errors = append(s.Errors, "one-shot: "+strings.TrimSpace(text))
		res = "unknown"
	}
	if res == "unknown" {
		s.Unknowns++
		return res, nil
	}
	if res == "sat" && len(vals) > 0 {
		if len(lines) < 2 {
			return "unknown", nil
		}
		sx := parseSexp(lines[1])
		if sx == nil || len(sx.list) != len(vals) {
			return "unknown", nil
		}
		outv := make([]uint64, len(vals))
		for i, pair := range sx.list {
			if len(pair.list) != 2 {
				return "unknown", nil
			}
			v, ok := sexpValue(pair.list[1])
			if !ok {
				return "unknown", nil
			}
			outv[i] = v
		}
		return res, outv
	}
	return res, nil
}
