package main

import (
	"encoding/json"
	"fmt"
	"go/constant"
	"os"
	"path/filepath"
	"sort"
	"strings"
	"time"

	"golang.org/x/tools/go/ssa"
)

type Report struct {
	Prop           string
	Tier           string
	Seed           int
	Repo           string
	Runs           []*HarnessRun
	progs          []*Program
	Fatal          []string
	Wall           time.Duration
	Replayed       int
	WitnessOK      int
	ReplayProblems []string
	ReproFiles     []string
	ReplayWall     time.Duration
}

// staticIDs lists the assertion / reach ids that appear syntactically in fn.
func staticIDs(fn *ssa.Function) []string {
	seen := map[string]bool{}
	var visit func(f *ssa.Function)
	visited := map[*ssa.Function]bool{}
	visit = func(f *ssa.Function) {
		if visited[f] {
			return
		}
		visited[f] = true
		for _, b := range f.Blocks {
			for _, in := range b.Instrs {
				c, ok := in.(*ssa.Call)
				if !ok {
					continue
				}
				callee := c.Call.StaticCallee()
				if callee == nil {
					continue
				}
				if callee.Name() == "vfAssert" || callee.Name() == "vfReach" {
					if k, ok := c.Call.Args[0].(*ssa.Const); ok && k.Value != nil && k.Value.Kind() == constant.String {
						seen[constant.StringVal(k.Value)] = true
					}
				}
			}
		}
		for _, af := range f.AnonFuncs {
			visit(af)
		}
	}
	visit(fn)
	var r []string
	for k := range seen {
		r = append(r, k)
	}
	sort.Strings(r)
	return r
}

func (rep *Report) finish(writeEvidence bool) int {
	var violations, knowns, inconclusive []string
	violFile := ""
	var states, transitions, obligations, trivial, feasq int
	var solverT time.Duration
	encoded := map[string]int{}
	bounds := map[string]string{}
	var stubs, outside []string
	var samples []interface{}
	knownSeen := map[string]bool{}
	for _, m := range rep.Fatal {
		inconclusive = append(inconclusive, m)
	}
	for _, m := range rep.ReplayProblems {
		inconclusive = append(inconclusive, "replay: "+m)
	}
	for _, h := range rep.Runs {
		states += h.Paths
		transitions += int(h.Steps)
		obligations += h.Obligations
		trivial += h.Trivial
		feasq += h.FeasQueries
		solverT += h.SolverTime
		for k, v := range h.Encoded {
			encoded[k] += v
		}
		for k, v := range h.cfg.Bounds {
			bounds[h.Name+"."+k] = v
		}
		for _, s := range h.cfg.Stubs {
			stubs = append(stubs, h.Name+": "+s)
		}
		for _, s := range h.cfg.Outside {
			outside = append(outside, h.Name+": "+s)
		}
		if h.EngineErr != "" {
			inconclusive = append(inconclusive, h.Name+": engine error: "+h.EngineErr)
		}
		for _, m := range h.Inconclusive {
			inconclusive = append(inconclusive, h.Name+": "+m)
		}
		for _, e := range h.SolverErrs {
			inconclusive = append(inconclusive, h.Name+": solver: "+e)
		}
		for id := range h.WitUnknown {
			if _, ok := h.Witnesses[id]; !ok {
				inconclusive = append(inconclusive, h.Name+": witness query unknown for "+id)
			}
		}
		if h.EngineErr == "" {
			for _, id := range staticIDs(h.fn) {
				if h.HitCount[id] == 0 {
					inconclusive = append(inconclusive, fmt.Sprintf("%s: vacuous: %s never reached", h.Name, id))
				} else if _, ok := h.Witnesses[id]; !ok {
					inconclusive = append(inconclusive, fmt.Sprintf("%s: vacuous: no satisfiable path reaches %s", h.Name, id))
				}
			}
			if len(h.HitCount) == 0 {
				inconclusive = append(inconclusive, h.Name+": no assertion reached")
			}
		}
		for _, hit := range h.Hits {
			switch {
			case hit.Kind == "unknown":
				inconclusive = append(inconclusive, h.Name+": "+hit.Msg)
			case strings.HasPrefix(hit.Kind, "violation"):
				if strings.HasSuffix(hit.Kind, "+notreproduced") {
					inconclusive = append(inconclusive, fmt.Sprintf("%s: counterexample for %s did not reproduce natively (%s) %s", h.Name, hit.ID, hit.Pos, hit.Msg))
					continue
				}
				f := hit.Pos
				if !strings.HasSuffix(f, ".json") {
					// not replayed natively (nonative harness): write the model
					f = filepath.Join(replayRoot(), rep.Prop, fmt.Sprintf("%s-%s-engine.vec.json", h.Name, sanitize(hit.ID)))
					os.MkdirAll(filepath.Dir(f), 0755)
					b, _ := json.MarshalIndent(map[string]interface{}{"harness": h.Name, "id": hit.ID, "inputs": modelStrings(hit.Model), "msg": hit.Msg, "decisions": hit.Decs, "replayed_by": "engine only (harness marked nonative)"}, "", " ")
					os.WriteFile(f, b, 0644)
				}
				where := ""
				if !strings.HasSuffix(hit.Pos, ".json") && strings.Contains(hit.Pos, ":") {
					where = " at " + hit.Pos
				}
				violations = append(violations, fmt.Sprintf("%s assert=%s %s%s", h.Name, hit.ID, hit.Msg, where))
				if violFile == "" {
					violFile = f
				}
				if len(samples) < 12 {
					samples = append(samples, map[string]interface{}{"kind": "counterexample", "harness": h.Name, "assert": hit.ID, "inputs": modelStrings(hit.Model), "msg": hit.Msg})
				}
			case strings.HasPrefix(hit.Kind, "known"):
				if strings.HasSuffix(hit.Kind, "+notreproduced") {
					inconclusive = append(inconclusive, fmt.Sprintf("%s: known finding for %s did not reproduce natively (%s) %s", h.Name, hit.ID, hit.Pos, hit.Msg))
					continue
				}
				if !knownSeen[hit.Known] {
					knownSeen[hit.Known] = true
					knowns = append(knowns, hit.Known)
					if len(samples) < 12 {
						samples = append(samples, map[string]interface{}{"kind": "known-finding", "harness": h.Name, "assert": hit.ID, "inputs": modelStrings(hit.Model), "what": hit.Known})
					}
				}
			}
		}
		// witnesses as samples
		n := 0
		for _, id := range sortedWit(h.Witnesses) {
			if n >= 2 || len(samples) >= 12 {
				break
			}
			samples = append(samples, map[string]interface{}{"kind": "witness", "harness": h.Name, "reaches": id, "inputs": modelStrings(h.Witnesses[id].Model)})
			n++
		}
	}
	for _, k := range knowns {
		fmt.Printf("KNOWN-FINDING: property=%s %s\n", rep.Prop, k)
	}
	code := 0
	if len(violations) > 0 {
		for _, v := range violations {
			fmt.Printf("  violation: %s\n", v)
		}
		fmt.Printf("VIOLATION property=%s replay=%s\n", rep.Prop, violFile)
		code = 1
	} else if len(inconclusive) > 0 {
		for _, m := range inconclusive {
			fmt.Printf("INCONCLUSIVE property=%s %s\n", rep.Prop, m)
		}
		code = 2
	} else {
		fmt.Printf("OK property=%s tier=%s paths=%d obligations=%d (solver-discharged %d) feasibility-queries=%d replayed=%d wall=%.1fs\n", rep.Prop, rep.Tier, states, obligations, obligations-trivial, feasq, rep.Replayed, rep.Wall.Seconds())
	}
	if writeEvidence {
		var fns []string
		for k := range encoded {
			if !strings.Contains(k, ".vf") && !strings.Contains(k, ".Vf") {
				fns = append(fns, k)
			}
		}
		sort.Strings(fns)
		if len(samples) == 0 {
			samples = append(samples, "no sample: nothing explored")
		}
		var hsum []map[string]interface{}
		for _, h := range rep.Runs {
			hsum = append(hsum, map[string]interface{}{"harness": h.Name, "paths": h.Paths, "path_kinds": h.PathKinds, "ssa_instructions": h.Steps,
				"assertion_hits": h.HitCount, "verdict_queries": h.Obligations, "feasibility_queries": h.FeasQueries, "solver_s": h.SolverTime.Seconds(), "wall_s": h.Wall.Seconds(), "schedule_sample": h.SchedSample})
		}
		ev := map[string]interface{}{
			"property_id": rep.Prop,
			"tier":        rep.Tier,
			"seed":        rep.Seed,
			"level":       "model_checking",
			"coverage": map[string]interface{}{
				"states":                        max(states, 1),
				"transitions":                   max(transitions, 1),
				"traces_validated_against_impl": rep.Replayed,
				"samples":                       samples,
				"obligations":                   obligations,
				"discharged":                    obligations - len(violations),
				"solver_verdict_queries":        obligations - trivial,
				"feasibility_queries":           feasq,
				"solver_time_s":                 solverT.Seconds(),
				"solvers":                       []string{"z3 4.8.12 (z3 -in, incremental)"},
				"functions_encoded":             fns,
				"harnesses":                     hsum,
				"bounds":                        bounds,
				"stubs":                         stubs,
				"outside_claim":                 outside,
				"known_findings_reported":       knowns,
				"inconclusive":                  inconclusive,
				"explanation":                   "bounded symbolic execution of go/ssa of the real functions listed in functions_encoded, regenerated from the working tree on this run; states = symbolic paths completed, transitions = SSA instructions symbolically executed, obligations = assertion checks (solver_verdict_queries of them needed the solver, the rest folded to true), traces_validated_against_impl = witness and counterexample vectors re-run against the natively compiled code",
			},
			"assumptions": append(append([]string{"go/packages+go/ssa SSA construction", "engine instruction semantics", "z3"}, stubs...), outside...),
			"wall_s":      rep.Wall.Seconds(),
			"violations":  len(violations),
		}
		os.MkdirAll(filepath.Join(verifRoot, "evidence"), 0755)
		b, _ := json.MarshalIndent(ev, "", " ")
		os.WriteFile(filepath.Join(verifRoot, "evidence", rep.Prop+".json"), b, 0644)
	}
	return code
}

func sortedWit(m map[string]*WitnessRec) []string {
	var ks []string
	for k := range m {
		ks = append(ks, k)
	}
	sort.Strings(ks)
	return ks
}

func sanitize(s string) string {
	return strings.Map(func(r rune) rune {
		if r >= 'a' && r <= 'z' || r >= 'A' && r <= 'Z' || r >= '0' && r <= '9' || r == '.' || r == '_' {
			return r
		}
		return '_'
	}, s)
}
