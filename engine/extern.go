package main

// Intrinsics (vf*), environment stubs and models for external functions.

import (
	"fmt"
	"go/types"
	"math"
	"strings"

	"golang.org/x/tools/go/ssa"
)

type extFn func(p *Path, fr *frame, args []Value) Value

var externals = map[string]extFn{}

func init() {
	// registered here to avoid init cycles
	for k, v := range map[string]extFn{
		// sync
		"(*sync.Mutex).Lock":      func(p *Path, fr *frame, a []Value) Value { p.mutexLock(fr, a[0].(Ptr)); return nil },
		"(*sync.Mutex).Unlock":    func(p *Path, fr *frame, a []Value) Value { p.mutexUnlock(fr, a[0].(Ptr)); return nil },
		"(*sync.Mutex).TryLock":   func(p *Path, fr *frame, a []Value) Value { return p.e.ts.Bool(p.mutexTryLock(fr, a[0].(Ptr))) },
		"(*sync.RWMutex).Lock":    func(p *Path, fr *frame, a []Value) Value { p.mutexLock(fr, a[0].(Ptr)); return nil },
		"(*sync.RWMutex).Unlock":  func(p *Path, fr *frame, a []Value) Value { p.mutexUnlock(fr, a[0].(Ptr)); return nil },
		"(*sync.RWMutex).RLock":   func(p *Path, fr *frame, a []Value) Value { p.mutexRLock(fr, a[0].(Ptr)); return nil },
		"(*sync.RWMutex).RUnlock": func(p *Path, fr *frame, a []Value) Value { p.mutexRUnlock(fr, a[0].(Ptr)); return nil },
		"(*sync.WaitGroup).Add": func(p *Path, fr *frame, a []Value) Value {
			w := p.wgOf(a[0].(Ptr))
			w.n += int(a[1].(*Term).S())
			if w.n < 0 {
				panic(targetPanic{msg: "sync: negative WaitGroup counter"})
			}
			return nil
		},
		"(*sync.WaitGroup).Done": func(p *Path, fr *frame, a []Value) Value {
			w := p.wgOf(a[0].(Ptr))
			w.n--
			if w.n < 0 {
				panic(targetPanic{msg: "sync: negative WaitGroup counter"})
			}
			p.yield(fr, nil, "wg.done")
			return nil
		},
		"(*sync.WaitGroup).Wait": func(p *Path, fr *frame, a []Value) Value {
			w := p.wgOf(a[0].(Ptr))
			p.block(fr, nil, "WaitGroup.Wait", func() bool { return w.n == 0 })
			return nil
		},
		// atomics
		"sync/atomic.LoadUint64":  atomicLoad,
		"sync/atomic.LoadUint32":  atomicLoad,
		"sync/atomic.LoadInt64":   atomicLoad,
		"sync/atomic.LoadInt32":   atomicLoad,
		"sync/atomic.LoadPointer": atomicLoad,
		"sync/atomic.LoadUintptr": atomicLoad,
		"sync/atomic.StoreUint64": atomicStore,
		"sync/atomic.StoreUint32": atomicStore,
		"sync/atomic.StoreInt64":  atomicStore,
		"sync/atomic.StoreInt32":  atomicStore,
		"sync/atomic.AddUint64":   atomicAdd,
		"sync/atomic.AddUint32":   atomicAdd,
		"sync/atomic.AddInt64":    atomicAdd,
		"sync/atomic.AddInt32":    atomicAdd,
		"sync/atomic.SwapUint64":  atomicSwap,
		"sync/atomic.SwapUint32":  atomicSwap,
		"sync/atomic.SwapInt64":   atomicSwap,
		"sync/atomic.SwapInt32":   atomicSwap,

		"sync/atomic.CompareAndSwapUint64": atomicCAS,
		"sync/atomic.CompareAndSwapUint32": atomicCAS,
		"sync/atomic.CompareAndSwapInt64":  atomicCAS,
		"sync/atomic.CompareAndSwapInt32":  atomicCAS,

		// logging: no-ops
		"(*log.Logger).Printf":  noop,
		"(*log.Logger).Println": noop,
		"(*log.Logger).Print":   noop,
		"(*log.Logger).Fatalf":  noop,
		"log.Printf":            noop,
		"log.New":               func(p *Path, fr *frame, a []Value) Value { return nilPtr },
		"log.Println":           noop,
		"time.Sleep":            noop,
		"runtime.Gosched":       noop,
		"runtime.SetFinalizer":  noop,
		"runtime.KeepAlive":     noop,

		"fmt.Sprintf": func(p *Path, fr *frame, a []Value) Value { return p.sprintf(a[0].(*Str), a[1].(Slice)) },
		"fmt.Errorf": func(p *Path, fr *frame, a []Value) Value {
			return p.errorValue(p.sprintf(a[0].(*Str), a[1].(Slice)))
		},
		"fmt.Sprint": func(p *Path, fr *frame, a []Value) Value { return p.sprint(a[0].(Slice)) },

		"math.Sqrt": func(p *Path, fr *frame, a []Value) Value {
			if x := a[0].(*Term); p.cfg.FPAbstract["sqrt"] && !x.isConst {
				return p.newFPInput("fpabs.sqrt")
			}
			return p.e.ts.FPUn("fp.sqrt", a[0].(*Term))
		},
		"math.Pow": func(p *Path, fr *frame, a []Value) Value {
			x, y := a[0].(*Term), a[1].(*Term)
			if x.isConst && y.isConst {
				return p.e.ts.FP(64, math.Pow(x.F(), y.F()))
			}
			if p.cfg.FPAbstract["pow"] {
				return p.newFPInput("fpabs.pow")
			}
			if y.isConst && y.F() == 2.0 {
				return p.e.ts.FPBin("fp.mul", x, x)
			}
			panic(engineError("math.Pow with symbolic arguments (use //vf:fpabstract pow)"))
		},
		"math.Abs":  func(p *Path, fr *frame, a []Value) Value { return p.e.ts.FPUn("fp.abs", a[0].(*Term)) },
		"math.Max":  func(p *Path, fr *frame, a []Value) Value { return p.mathMaxMin(a[0].(*Term), a[1].(*Term), true) },
		"math.Min":  func(p *Path, fr *frame, a []Value) Value { return p.mathMaxMin(a[0].(*Term), a[1].(*Term), false) },
		"math.IsNaN": func(p *Path, fr *frame, a []Value) Value { return p.e.ts.FPPred("fp.isNaN", a[0].(*Term)) },
		"math.IsInf": func(p *Path, fr *frame, a []Value) Value {
			ts := p.e.ts
			f, sign := a[0].(*Term), a[1].(*Term)
			inf := ts.FPPred("fp.isInfinite", f)
			neg := ts.FPPred("fp.isNegative", f)
			zero := ts.BV(64, 0)
			pos := ts.And(inf, ts.Not(neg))
			ng := ts.And(inf, neg)
			return ts.Or(ts.And(ts.BVCmp("bvsge", sign, zero), pos), ts.And(ts.BVCmp("bvsle", sign, zero), ng))
		},

		// bytealg primitives used by strings/bytes
		"internal/bytealg.IndexByteString": func(p *Path, fr *frame, a []Value) Value {
			return p.indexByte(a[0].(*Str).b, a[1].(*Term))
		},
		"internal/bytealg.IndexByte": func(p *Path, fr *frame, a []Value) Value {
			return p.indexByte(sliceBytes(a[0].(Slice)), a[1].(*Term))
		},
		"internal/bytealg.CountString": func(p *Path, fr *frame, a []Value) Value {
			return p.countByte(a[0].(*Str).b, a[1].(*Term))
		},
		"internal/bytealg.Count": func(p *Path, fr *frame, a []Value) Value {
			return p.countByte(sliceBytes(a[0].(Slice)), a[1].(*Term))
		},
		"internal/bytealg.Equal": func(p *Path, fr *frame, a []Value) Value {
			return p.e.eqVal(&Str{b: sliceBytes(a[0].(Slice))}, &Str{b: sliceBytes(a[1].(Slice))})
		},
		"bytes.Equal": func(p *Path, fr *frame, a []Value) Value {
			return p.e.eqVal(&Str{b: sliceBytes(a[0].(Slice))}, &Str{b: sliceBytes(a[1].(Slice))})
		},
		"internal/stringslite.HasPrefix": func(p *Path, fr *frame, a []Value) Value {
			return p.hasPrefix(a[0].(*Str), a[1].(*Str))
		},
		"strings.HasPrefix": func(p *Path, fr *frame, a []Value) Value { return p.hasPrefix(a[0].(*Str), a[1].(*Str)) },
		"strings.HasSuffix": func(p *Path, fr *frame, a []Value) Value {
			s, suf := a[0].(*Str), a[1].(*Str)
			if len(suf.b) > len(s.b) {
				return p.e.ts.False
			}
			return p.e.eqVal(&Str{b: s.b[len(s.b)-len(suf.b):]}, suf)
		},

		"(*strings.Builder).String":      sbString,
		"(*strings.Builder).WriteString": sbWriteString,
		"(*strings.Builder).WriteByte":   sbWriteByte,
		"(*strings.Builder).Write":       sbWrite,
		"(*strings.Builder).Len":         sbLen,
		"(*strings.Builder).Grow":        noop,
		"(*strings.Builder).Reset": func(p *Path, fr *frame, a []Value) Value {
			st := (*a[0].(Ptr)).(Struct)
			st[1] = Slice(nil)
			return nil
		},
	} {
		externals[k] = v
	}
}

func noop(p *Path, fr *frame, a []Value) Value { return nil }

func sliceBytes(s Slice) []*Term {
	r := make([]*Term, len(s))
	for i, v := range s {
		r[i] = v.(*Term)
	}
	return r
}

func (p *Path) wgOf(a Ptr) *wgState {
	w := p.wgs[a]
	if w == nil {
		w = &wgState{}
		p.wgs[a] = w
	}
	return w
}

func atomicLoad(p *Path, fr *frame, a []Value) Value {
	p.yield(fr, nil, "atomic.load")
	return copyVal(*a[0].(Ptr))
}
func atomicStore(p *Path, fr *frame, a []Value) Value {
	p.yield(fr, nil, "atomic.store")
	*a[0].(Ptr) = a[1]
	return nil
}
func atomicAdd(p *Path, fr *frame, a []Value) Value {
	p.yield(fr, nil, "atomic.add")
	addr := a[0].(Ptr)
	n := p.e.ts.BVBin("bvadd", (*addr).(*Term), a[1].(*Term))
	*addr = n
	return n
}
func atomicSwap(p *Path, fr *frame, a []Value) Value {
	p.yield(fr, nil, "atomic.swap")
	addr := a[0].(Ptr)
	old := *addr
	*addr = a[1]
	return old
}
func atomicCAS(p *Path, fr *frame, a []Value) Value {
	p.yield(fr, nil, "atomic.cas")
	addr := a[0].(Ptr)
	eq := p.e.ts.Eq((*addr).(*Term), a[1].(*Term))
	if p.Branch(eq) {
		*addr = a[2]
		return p.e.ts.True
	}
	return p.e.ts.False
}

func (p *Path) mathMaxMin(x, y *Term, isMax bool) *Term {
	ts := p.e.ts
	// Go's math.Max/Min special cases: Inf dominates, NaN propagates, signed zeros ordered.
	nan := ts.Or(ts.FPPred("fp.isNaN", x), ts.FPPred("fp.isNaN", y))
	var pick *Term
	bothZero := ts.And(ts.FPPred("fp.isZero", x), ts.FPPred("fp.isZero", y))
	if isMax {
		pick = ts.Ite(ts.FPCmp("fp.gt", x, y), x, y)
		// max(+0,-0)=+0
		pick = ts.Ite(bothZero, ts.Ite(ts.FPPred("fp.isNegative", x), y, x), pick)
		posInf := ts.FP(64, inf(1))
		pick = ts.Ite(nan, ts.FPBits(64, 0x7FF8000000000001), pick)
		isPI := ts.Or(ts.And(ts.FPPred("fp.isInfinite", x), ts.Not(ts.FPPred("fp.isNegative", x))), ts.And(ts.FPPred("fp.isInfinite", y), ts.Not(ts.FPPred("fp.isNegative", y))))
		pick = ts.Ite(isPI, posInf, pick)
	} else {
		pick = ts.Ite(ts.FPCmp("fp.lt", x, y), x, y)
		pick = ts.Ite(bothZero, ts.Ite(ts.FPPred("fp.isNegative", x), x, y), pick)
		negInf := ts.FP(64, inf(-1))
		pick = ts.Ite(nan, ts.FPBits(64, 0x7FF8000000000001), pick)
		isNI := ts.Or(ts.And(ts.FPPred("fp.isInfinite", x), ts.FPPred("fp.isNegative", x)), ts.And(ts.FPPred("fp.isInfinite", y), ts.FPPred("fp.isNegative", y)))
		pick = ts.Ite(isNI, negInf, pick)
	}
	return pick
}

func inf(sign int) float64 {
	var z float64
	if sign >= 0 {
		return 1 / z
	}
	return -1 / z
}

func (p *Path) hasPrefix(s, pre *Str) *Term {
	if len(pre.b) > len(s.b) {
		return p.e.ts.False
	}
	return p.e.eqVal(&Str{b: s.b[:len(pre.b)]}, pre)
}

// indexByte returns the index of the first occurrence as a term (no forking).
func (p *Path) indexByte(b []*Term, c *Term) *Term {
	ts := p.e.ts
	r := ts.BV(64, ^uint64(0))
	for i := len(b) - 1; i >= 0; i-- {
		r = ts.Ite(ts.Eq(b[i], c), ts.BV(64, uint64(i)), r)
	}
	return r
}

func (p *Path) countByte(b []*Term, c *Term) *Term {
	ts := p.e.ts
	r := ts.BV(64, 0)
	for i := range b {
		r = ts.BVBin("bvadd", r, ts.Ite(ts.Eq(b[i], c), ts.BV(64, 1), ts.BV(64, 0)))
	}
	return r
}

// strings.Builder model: field 0 = addr, field 1 = buf []byte
func sbBuf(a Value) (Struct, Slice) {
	st := (*a.(Ptr)).(Struct)
	return st, st[1].(Slice)
}
func sbString(p *Path, fr *frame, a []Value) Value {
	_, buf := sbBuf(a[0])
	return &Str{b: sliceBytes(buf)}
}
func sbWriteString(p *Path, fr *frame, a []Value) Value {
	st, buf := sbBuf(a[0])
	s := a[1].(*Str)
	if s.opaque {
		panic(engineError("Builder.WriteString(opaque)"))
	}
	for _, t := range s.b {
		buf = append(buf, t)
	}
	st[1] = buf
	return Tuple{p.e.ts.BV(64, uint64(len(s.b))), Iface{}}
}
func sbWriteByte(p *Path, fr *frame, a []Value) Value {
	st, buf := sbBuf(a[0])
	st[1] = append(buf, a[1])
	return Iface{}
}
func sbWrite(p *Path, fr *frame, a []Value) Value {
	st, buf := sbBuf(a[0])
	s := a[1].(Slice)
	for _, t := range s {
		buf = append(buf, t)
	}
	st[1] = buf
	return Tuple{p.e.ts.BV(64, uint64(len(s))), Iface{}}
}
func sbLen(p *Path, fr *frame, a []Value) Value {
	_, buf := sbBuf(a[0])
	return p.e.ts.BV(64, uint64(len(buf)))
}

// errorValue builds an error whose dynamic type is *errors.errorString.
func (p *Path) errorValue(msg *Str) Value {
	t := p.h.prog.errorStringPtr
	cell := new(Value)
	*cell = Struct{msg}
	return Iface{T: t, V: Ptr(cell)}
}

// ---- formatting ----

func (p *Path) fmtArg(verb byte, v Value) *Str {
	e := p.e
	if ifc, ok := v.(Iface); ok {
		if ifc.T == nil {
			return e.strOf("<nil>")
		}
		// error / Stringer
		if t, isT := ifc.V.(*Term); isT && !t.isConst {
			if p.cfg.NumTokens && verb == 'd' && t.sort.K == SBV {
				// the decimal digits of a symbolic number: ONE string element carrying the 64-bit value
				// (strconv.ParseUint maps it back; the digit codec itself is trusted, not encoded)
				return &Str{b: []*Term{p.e.ts.Resize(t, 64, isSignedT(ifc.T))}}
			}
			// a term the path condition pins to one value formats like that value
			if t.sort.K == SBV && (verb == 'd' || verb == 'v') && p.safeLookup(ifc.T, "String") == nil {
				if v, ok := p.uniqueValue(t); ok {
					c := p.e.ts.BV(t.sort.W, v)
					if isSignedT(ifc.T) {
						return e.strOf(fmt.Sprintf("%d", c.S()))
					}
					return e.strOf(fmt.Sprintf("%d", c.u))
				}
			}
			// formatting a symbolic number (e.g. a time.Duration through its String method)
			// would fork on every digit: the text is opaque instead
			return &Str{b: []*Term{e.byteConst['?']}, opaque: true}
		}
		if t, isT := ifc.V.(*Term); isT && t.isConst && t.sort.K == SBV && (verb == 'd' || verb == 'v') && !isSignedT(ifc.T) && basicOf(ifc.T) != nil && ifc.T.Underlying() == basicOf(ifc.T) {
			if _, hasString := ifc.T.(*types.Named); !hasString || p.safeLookup(ifc.T, "String") == nil {
				return e.strOf(fmt.Sprintf("%d", t.u)) // unsigned types print unsigned
			}
		}
		if verb == 's' || verb == 'v' || verb == 'q' {
			if m := p.safeLookup(ifc.T, "Error"); m != nil && verb != 'd' {
				if s, ok := p.tryCallStringMethod(m, ifc.V); ok {
					return s
				}
			}
			if m := p.safeLookup(ifc.T, "String"); m != nil {
				if s, ok := p.tryCallStringMethod(m, ifc.V); ok {
					return s
				}
			}
		}
		v = ifc.V
	}
	switch x := v.(type) {
	case *Str:
		if verb == 'q' {
			if cs, ok := x.Concrete(); ok {
				return e.strOf(fmt.Sprintf("%q", cs))
			}
			return &Str{b: x.b, opaque: true}
		}
		return x
	case *Term:
		if x.isConst {
			switch x.sort.K {
			case SBool:
				return e.strOf(fmt.Sprintf("%v", x.u == 1))
			case SFP:
				return e.strOf(fmt.Sprintf("%v", x.F()))
			default:
				switch verb {
				case 'x':
					return e.strOf(fmt.Sprintf("%x", x.u))
				case 'c':
					return e.strOf(string(rune(x.u)))
				}
				return e.strOf(fmt.Sprintf("%d", x.S()))
			}
		}
		if x.sort.K == SBV && (verb == 'd' || verb == 'v') {
			if p.cfg.NumTokens && verb == 'd' {
				// the decimal digits of a symbolic number: ONE string element carrying the 64-bit value
				// (strconv.ParseUint maps it back; the digit codec itself is trusted, not encoded)
				return &Str{b: []*Term{p.e.ts.Resize(x, 64, false)}}
			}
			// a term the path condition pins to one value formats like that value
			if v, ok := p.uniqueValue(x); ok {
				c := p.e.ts.BV(x.sort.W, v)
				return e.strOf(fmt.Sprintf("%d", c.S()))
			}
		}
		return &Str{b: []*Term{e.byteConst['?']}, opaque: true}
	case Slice:
		// []byte with %s
		ok := true
		var bs []*Term
		for _, el := range x {
			t, isT := el.(*Term)
			if !isT || t.sort != BVSort(8) {
				ok = false
				break
			}
			bs = append(bs, t)
		}
		if ok && (verb == 's') {
			return &Str{b: bs}
		}
		return &Str{b: []*Term{e.byteConst['?']}, opaque: true}
	}
	return &Str{b: []*Term{e.byteConst['?']}, opaque: true}
}

func (p *Path) tryCallStringMethod(m *ssa.Function, recv Value) (s *Str, ok bool) {
	defer func() {
		if r := recover(); r != nil {
			if _, isEE := r.(engineError); isEE {
				s, ok = nil, false
				return
			}
			panic(r)
		}
	}()
	r := p.call(nil, 0, m, []Value{recv})
	if str, isS := r.(*Str); isS {
		return str, true
	}
	return nil, false
}

func (p *Path) sprintf(format *Str, args Slice) *Str {
	f, ok := format.Concrete()
	if !ok {
		return &Str{b: []*Term{p.e.byteConst['?']}, opaque: true}
	}
	var out []*Term
	opaque := false
	ai := 0
	for i := 0; i < len(f); i++ {
		c := f[i]
		if c != '%' {
			out = append(out, p.e.byteConst[c])
			continue
		}
		i++
		// flags/width
		for i < len(f) && strings.IndexByte("+-# 0123456789.", f[i]) >= 0 {
			i++
		}
		if i >= len(f) {
			break
		}
		verb := f[i]
		if verb == '%' {
			out = append(out, p.e.byteConst['%'])
			continue
		}
		if ai >= len(args) {
			out = append(out, p.e.strOf("%!"+string(verb)+"(MISSING)").b...)
			continue
		}
		s := p.fmtArg(verb, args[ai])
		ai++
		out = append(out, s.b...)
		opaque = opaque || s.opaque
	}
	return &Str{b: out, opaque: opaque}
}

func (p *Path) sprint(args Slice) *Str {
	var out []*Term
	opaque := false
	for _, a := range args {
		s := p.fmtArg('v', a)
		out = append(out, s.b...)
		opaque = opaque || s.opaque
	}
	return &Str{b: out, opaque: opaque}
}

// ---- external dispatch ----

func (p *Path) external(fn *ssa.Function, name string) extFn {
	if ext, ok := externals[name]; ok {
		return ext
	}
	if fn.Pkg != nil {
		path := fn.Pkg.Pkg.Path()
		if strings.HasSuffix(path, "/go-metrics") || strings.HasSuffix(path, "/go-metrics/compat") {
			return func(p *Path, fr *frame, a []Value) Value {
				res := fn.Signature.Results()
				if res.Len() == 0 {
					return nil
				}
				return p.e.zero(res)
			}
		}
		if fn.Signature.Recv() == nil && strings.HasPrefix(fn.Name(), "vf") && p.h.prog.isTarget(fn.Pkg) {
			if in, ok := intrinsics[fn.Name()]; ok {
				return in
			}
		}
		if fn.Name() == "init" && fn.Synthetic == "package initializer" && p.initRunning != nil && fn.Pkg != p.initRunning {
			// nested package initialisers are not run (see DESIGN 3.1)
			return noop
		}
	}
	return nil
}

func (p *Path) lookupFunc(name string) *ssa.Function {
	f := p.h.prog.funcByName(name)
	if f == nil {
		panic(engineError("override target not found: " + name))
	}
	return f
}

// global returns the address of a package-level variable, initialising its package lazily.
func (p *Path) global(g *ssa.Global) Ptr {
	if a, ok := p.globals[g]; ok {
		return a
	}
	pkg := g.Pkg
	for _, m := range pkg.Members {
		if gv, ok := m.(*ssa.Global); ok {
			cell := new(Value)
			*cell = p.e.zero(deref(gv.Type()))
			p.globals[gv] = cell
		}
	}
	if p.h.prog.wantInit(pkg) && !p.initDone[pkg] {
		p.initDone[pkg] = true
		saved := p.initRunning
		p.initRunning = pkg
		p.call(nil, 0, pkg.Func("init"), nil)
		p.initRunning = saved
	}
	return p.globals[g]
}

// named symbolic inputs ----------------------------------------------------

func (p *Path) inputName(base string) string {
	n := p.occ[base]
	p.occ[base] = n + 1
	if n == 0 {
		return base
	}
	return fmt.Sprintf("%s#%d", base, n)
}

func (p *Path) newInput(base string, s Sort) *Term {
	name := p.inputName(base)
	v := p.e.ts.Var(name, s)
	if !p.inputSet[name] {
		p.inputSet[name] = true
		p.inputs = append(p.inputs, v)
	}
	return v
}

func (p *Path) newFPInput(base string) *Term {
	bv := p.newInput(base, BVSort(64))
	return p.e.ts.mk("fp.from_ieee", FPSort(64), bv)
}

func concStr(v Value) string {
	s, ok := v.(*Str).Concrete()
	if !ok {
		panic(engineError("intrinsic name/id argument must be a concrete string"))
	}
	return s
}

func concInt(v Value) int {
	t := v.(*Term)
	if !t.isConst {
		panic(engineError("intrinsic bound argument must be concrete"))
	}
	return int(t.S())
}

var intrinsics map[string]extFn

func init() {
	intrinsics = map[string]extFn{
		"vfU64":  func(p *Path, fr *frame, a []Value) Value { return p.newInput(concStr(a[0]), BVSort(64)) },
		"vfI64":  func(p *Path, fr *frame, a []Value) Value { return p.newInput(concStr(a[0]), BVSort(64)) },
		"vfInt":  func(p *Path, fr *frame, a []Value) Value { return p.newInput(concStr(a[0]), BVSort(64)) },
		"vfU32":  func(p *Path, fr *frame, a []Value) Value { return p.newInput(concStr(a[0]), BVSort(32)) },
		"vfI32":  func(p *Path, fr *frame, a []Value) Value { return p.newInput(concStr(a[0]), BVSort(32)) },
		"vfU16":  func(p *Path, fr *frame, a []Value) Value { return p.newInput(concStr(a[0]), BVSort(16)) },
		"vfU8":   func(p *Path, fr *frame, a []Value) Value { return p.newInput(concStr(a[0]), BVSort(8)) },
		"vfBool": func(p *Path, fr *frame, a []Value) Value { return p.newInput(concStr(a[0]), BoolSort) },
		"vfF64":  func(p *Path, fr *frame, a []Value) Value { return p.newFPInput(concStr(a[0])) },
		"vfChoice": func(p *Path, fr *frame, a []Value) Value {
			name := p.inputName(concStr(a[0]))
			n := concInt(a[1])
			k := p.decide(n, "choice:"+name)
			p.concIn[name] = uint64(k)
			// mirror the choice in a solver variable so that known-finding predicates can refer to it
			v := p.e.ts.Var(name, BVSort(64))
			if !p.inputSet[name] {
				p.inputSet[name] = true
				p.inputs = append(p.inputs, v)
			}
			p.addPC(p.e.ts.Eq(v, p.e.ts.BV(64, uint64(k))))
			return p.e.ts.BV(64, uint64(k))
		},
		"vfString": func(p *Path, fr *frame, a []Value) Value { return &Str{b: p.symBytes(concStr(a[0]), concInt(a[1]))} },
		"vfBytes": func(p *Path, fr *frame, a []Value) Value {
			bs := p.symBytes(concStr(a[0]), concInt(a[1]))
			out := make(Slice, len(bs))
			for i, t := range bs {
				out[i] = t
			}
			return out
		},
		"vfAssume": func(p *Path, fr *frame, a []Value) Value { p.assume(a[0].(*Term)); return nil },
		"vfAssert": func(p *Path, fr *frame, a []Value) Value {
			pos := ""
			if fr.caller != nil {
				pos = fr.caller.fn.Name()
			}
			p.assertCond(concStr(a[0]), a[1].(*Term), pos, "")
			return nil
		},
		"vfReach":   func(p *Path, fr *frame, a []Value) Value { p.reach(concStr(a[0])); return nil },
		"vfNative":  func(p *Path, fr *frame, a []Value) Value { return p.e.ts.False },
		"vfAnd":     func(p *Path, fr *frame, a []Value) Value { return p.e.ts.And(a[0].(*Term), a[1].(*Term)) },
		"vfOr":      func(p *Path, fr *frame, a []Value) Value { return p.e.ts.Or(a[0].(*Term), a[1].(*Term)) },
		"vfImplies": func(p *Path, fr *frame, a []Value) Value { return p.e.ts.Implies(a[0].(*Term), a[1].(*Term)) },
		"vfIteU64": func(p *Path, fr *frame, a []Value) Value {
			return p.e.ts.Ite(a[0].(*Term), a[1].(*Term), a[2].(*Term))
		},
		"vfObserve": noop,
		"vfTier": func(p *Path, fr *frame, a []Value) Value {
			if p.h.tier == "thorough" {
				return p.e.ts.BV(64, 1)
			}
			return p.e.ts.BV(64, 0)
		},
		"vfYieldTo": func(p *Path, fr *frame, a []Value) Value {
			// forced hand-over to some other enabled thread (if any)
			if others := p.enabledOthers(); len(others) > 0 {
				k := p.decide(len(others), "yieldto")
				p.switchTo(p.cur, others[k])
			}
			return nil
		},
		"vfSpawnedCount": func(p *Path, fr *frame, a []Value) Value {
			return p.e.ts.BV(64, uint64(len(p.spawned)))
		},
		"vfSpawnedName": func(p *Path, fr *frame, a []Value) Value {
			i := concInt(a[0])
			if i >= len(p.spawned) {
				return p.e.strOf("")
			}
			return p.e.strOf(p.spawned[i].name)
		},
		"vfRunSpawned": func(p *Path, fr *frame, a []Value) Value {
			i := concInt(a[0])
			if i < len(p.spawned) && !p.spawned[i].ran {
				p.spawned[i].ran = true
				p.call(fr, 0, p.spawned[i].fn, p.spawned[i].args)
			}
			return nil
		},
		"vfWaitThreads": func(p *Path, fr *frame, a []Value) Value { p.waitOthers(fr); return nil },
		"vfYield":       func(p *Path, fr *frame, a []Value) Value { p.yield(fr, nil, "vfYield"); return nil },
		"vfRacy": func(p *Path, fr *frame, a []Value) Value {
			if p.racy == nil {
				p.racy = map[Ptr]bool{}
			}
			p.markRacy(a[0].(Iface).V)
			return nil
		},
		"vfQuietLock": func(p *Path, fr *frame, a []Value) Value {
			if p.quietMu == nil {
				p.quietMu = map[Ptr]bool{}
			}
			p.quietMu[a[0].(Iface).V.(Ptr)] = true
			return nil
		},
		"vfHeld": func(p *Path, fr *frame, a []Value) Value {
			m := p.mutexes[a[0].(Iface).V.(Ptr)]
			return p.e.ts.Bool(m != nil && m.writer != nil)
		},
		"vfHeldByMe": func(p *Path, fr *frame, a []Value) Value {
			m := p.mutexes[a[0].(Iface).V.(Ptr)]
			return p.e.ts.Bool(m != nil && m.writer == p.cur)
		},
		"vfGo": func(p *Path, fr *frame, a []Value) Value {
			// vfGo(f func()) starts f as an engine thread even in sequential mode configs
			th := p.newThread("vfGo", a[0], nil)
			p.startThread(th, false)
			return nil
		},
	}
}

func (p *Path) markRacy(v Value) {
	ptr, ok := v.(Ptr)
	if !ok || ptr == nil {
		return
	}
	p.racy[ptr] = true
	switch x := (*ptr).(type) {
	case Struct:
		for i := range x {
			p.racy[Ptr(&x[i])] = true
		}
	}
}

// symBytes makes a byte string of symbolic content whose length is chosen by forking.
func (p *Path) symBytes(base string, max int) []*Term {
	name := p.inputName(base)
	n := p.decide(max+1, "len:"+name)
	p.concIn[name+".len"] = uint64(n)
	bs := make([]*Term, n)
	for i := 0; i < n; i++ {
		vn := fmt.Sprintf("%s[%d]", name, i)
		v := p.e.ts.Var(vn, BVSort(8))
		if !p.inputSet[vn] {
			p.inputSet[vn] = true
			p.inputs = append(p.inputs, v)
		}
		bs[i] = v
	}
	return bs
}

func (p *Path) zeroTime() Value {
	return p.e.zero(p.h.prog.timeType)
}

var _ = types.Identical

// safeLookup: LookupMethod panics for types without the method, so look first.
func (p *Path) safeLookup(t types.Type, name string) *ssa.Function {
	ms := p.prog.MethodSets.MethodSet(t)
	for i := 0; i < ms.Len(); i++ {
		if ms.At(i).Obj().Name() == name && ms.At(i).Obj().Exported() {
			return p.prog.MethodValue(ms.At(i))
		}
	}
	return nil
}

// uniqueValue returns v if the path condition implies t == v.
func (p *Path) uniqueValue(t *Term) (uint64, bool) {
	if t.isConst {
		return t.u, true
	}
	v, ok := p.e.solver.EvalTerm(t)
	if !ok {
		return 0, false
	}
	ts := p.e.ts
	if p.e.solver.CheckWith(ts.Not(ts.Eq(t, ts.BV(t.sort.W, v)))) == "unsat" {
		return v, true
	}
	return 0, false
}

func init() {
	// float helpers: evaluated concretely on constants, otherwise an arbitrary value
	fp1 := func(name string, f func(float64) float64) {
		externals[name] = func(p *Path, fr *frame, a []Value) Value {
			x := a[0].(*Term)
			if x.isConst {
				return p.e.ts.FP(64, f(x.F()))
			}
			return p.newFPInput(name)
		}
	}
	fp1("math.Log10", math.Log10)
	fp1("math.Log", math.Log)
	fp1("math.Ceil", math.Ceil)
	fp1("math.Floor", math.Floor)
	fp1("math.Exp", math.Exp)
}
