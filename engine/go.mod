module verif/engine

go 1.25.0

require (
	github.com/hashicorp/serf v0.0.0
	golang.org/x/tools v0.46.0
)

require (
	golang.org/x/mod v0.37.0 // indirect
	golang.org/x/sync v0.21.0 // indirect
)

replace github.com/hashicorp/serf => /repo
