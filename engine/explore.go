package main

// Path exploration by re-execution along decision prefixes, feasibility
// pruning with the solver, assertions, witnesses, known findings.

import (
	"fmt"
	"os"
	"runtime/debug"
	"sort"
	"strings"
	"sync"
	"time"

	"golang.org/x/tools/go/ssa"
)

type Dec struct {
	V   int    // chosen alternative
	Aux uint64 // value proposed by the solver (concretisation decisions)
}

type Config struct {
	Unwind        int
	MaxSteps      int
	MaxAlloc      int
	MaxConcretize int
	MaxPaths      int
	Timeout       time.Duration
	Overrides     map[string]string
	Sched         bool
	Switches      int
	MapOrder      bool
	Solver        string // verdict solver: z3 | cvc5 | cvc5int | z3new
	Bounds        map[string]string
	Stubs         []string
	Outside       []string
	NoNative      bool
	LazyTimers    bool // timers fire only when the selecting thread would otherwise block
	MaxTicks      int // how many times a periodic timer (ticker) may fire on one path
	LazyFP        bool
	NumTokens     bool // %d of a symbolic integer yields a one-element decimal-number token
	FPAbstract    map[string]bool // float operations replaced by an arbitrary result (mul, div, sqrt, pow)
	FPExactIn     []string        // ... except in the body of these functions
	FPSolver      string          // solver for one-shot float queries (default z3 4.8.12)
	NoYield       []string // scheduling-point kinds (prefix match) that are not pre-emption points
	ExpectPanic   bool
}

// Engine is per worker: term store and solver processes.
type Engine struct {
	ts        *TermStore
	solver    *Solver // feasibility + verdict (z3 incremental)
	verdict   *Solver // optional separate verdict solver
	stackDecs  []Dec
	rootPushed bool
	byteConst [256]*Term
}

func NewEngine(cfg *Config) *Engine {
	e := &Engine{ts: NewTermStore()}
	for i := 0; i < 256; i++ {
		e.byteConst[i] = e.ts.BV(8, uint64(i))
	}
	kind := cfg.Solver
	if kind == "" {
		kind = "z3"
	}
	if v := os.Getenv("VERIF_SOLVER"); v != "" {
		kind = v // differential runs: the same encoding decided by another solver (z3new, cvc5)
	}
	e.solver = NewSolver(kind, e.ts, cfg.Timeout)
	e.solver.lazyFP = cfg.LazyFP
	e.solver.fpSolver = cfg.FPSolver
	if v := os.Getenv("VERIF_FPSOLVER"); v != "" {
		e.solver.fpSolver = v
	}
	return e
}

func (e *Engine) Close() { e.solver.Close() }

type Hit struct {
	ID    string
	Kind  string // pass | violation | known | unknown | reach
	Model map[string]uint64
	Pos   string
	Msg   string
	Known string
	Decs  []int
}

type PathResult struct {
	Kind  string // ok | panic | infeasible | unwind | steps | bound | deadlock | error
	Msg   string
	Steps int
}

type Path struct {
	prog   *ssa.Program
	e      *Engine
	cfg    *Config
	h      *HarnessRun
	prefix []Dec
	decs   []Dec
	shared     int
	rootShared bool
	alts   [][]Dec
	pc     []*Term
	pcSet  map[int]bool

	globals  map[*ssa.Global]Ptr
	initDone map[*ssa.Package]bool
	inputs   []*Term
	inputSet map[string]bool
	concIn   map[string]uint64
	occ      map[string]int
	steps    int
	depth    int
	nchan    int
	encoded  map[string]int
	hits     []Hit

	// threads
	cur      *Thread
	threads  []*Thread
	spawned  []*spawnRec
	switches int
	aborting bool
	outcome  *PathResult
	outMu    sync.Mutex
	wg       sync.WaitGroup
	done     chan struct{}
	racy     map[Ptr]bool
	quietMu  map[Ptr]bool
	mutexes  map[Ptr]*mutexState
	wgs      map[Ptr]*wgState
	sched    []string // schedule trace (thread ids at switch points)

	// stub state
	logs     map[string][]Value
	clock    *Term
	nfresh   int
	files    map[string]Value
	ghost    map[string]Value
	lastSite string
	initRunning *ssa.Package
	afterFuncs  map[Ptr]*afterFunc
	tokens      []tokenRec
	lastInstr   ssa.Instruction
	lastFrame   *frame
}

type spawnRec struct {
	fn   Value
	args []Value
	pos  string
	name string
	ran  bool
}

func (p *Path) addPC(t *Term) {
	if t.IsTrue() {
		return
	}
	p.pc = append(p.pc, t)
	if p.pcSet == nil {
		p.pcSet = map[int]bool{}
	}
	p.pcSet[t.id] = true
	if t.op == "and" {
		for _, a := range t.args {
			p.pcSet[a.id] = true
		}
	}
	// solver level j holds what was asserted after j decisions; levels 0..shared are
	// still on the solver's stack from the previous path of this worker
	if len(p.decs) > p.shared || !p.rootShared {
		p.e.solver.Assert(t)
	}
}

// pushDec records a decision and opens the corresponding solver level.
func (p *Path) pushDec(d Dec) {
	p.decs = append(p.decs, d)
	if len(p.decs) > p.shared {
		p.e.solver.Push()
		p.e.stackDecs = append(p.e.stackDecs, d)
	}
}

// decide makes a free n-way choice (all alternatives feasible by construction).
func (p *Path) decide(n int, what string) int {
	if n <= 1 {
		return 0
	}
	i := len(p.decs)
	if i < len(p.prefix) {
		d := p.prefix[i]
		p.pushDec(d)
		return d.V
	}
	if debugOn {
		dbg("decide %s n=%d", what, n)
	}
	base := append([]Dec(nil), p.decs...)
	for k := n - 1; k >= 1; k-- {
		p.alts = append(p.alts, append(append([]Dec(nil), base...), Dec{V: k}))
	}
	p.pushDec(Dec{V: 0})
	return 0
}

// Branch decides a symbolic condition, forking if both sides are feasible.
func (p *Path) Branch(c *Term) bool { return p.branchAux(c, 0) }

func (p *Path) branchAux(c *Term, aux uint64) bool {
	if c.isConst {
		return c.u == 1
	}
	ts := p.e.ts
	// a literal already on the path condition needs neither the solver nor a decision
	if p.pcSet[c.id] {
		return true
	}
	if p.pcSet[ts.Not(c).id] {
		return false
	}
	i := len(p.decs)
	if i < len(p.prefix) {
		d := p.prefix[i]
		p.pushDec(d)
		if d.V == 1 {
			p.addPC(c)
			return true
		}
		p.addPC(ts.Not(c))
		return false
	}
	p.h.addFeasQueries(1)
	if debugOn && p.lastInstr != nil && p.lastFrame != nil {
		dbg("branch at %s in %s", p.lastFrame.pos(p.lastInstr), p.lastFrame.fn.Name())
	}
	rt := p.e.solver.CheckWith(c)
	rf := "sat"
	if rt != "unsat" {
		p.h.addFeasQueries(1)
		rf = p.e.solver.CheckWith(ts.Not(c))
	}
	if rt == "unknown" || rf == "unknown" {
		p.h.noteUnknownFeas()
	}
	if rt != "unsat" {
		if rf != "unsat" {
			p.alts = append(p.alts, append(append([]Dec(nil), p.decs...), Dec{0, aux}))
		}
		p.pushDec(Dec{1, aux})
		p.addPC(c)
		return true
	}
	p.pushDec(Dec{0, aux})
	p.addPC(ts.Not(c))
	return false
}

// branchAt is Branch for an If instruction, with unwinding accounting.
func (p *Path) branchAt(fr *frame, instr *ssa.If, c *Term) bool {
	if c.isConst {
		return c.u == 1
	}
	if fr.visits == nil {
		fr.visits = map[*ssa.BasicBlock]int{}
	}
	fr.visits[fr.block]++
	if fr.visits[fr.block] > p.cfg.Unwind {
		panic(pathEnd{"unwind", fmt.Sprintf("unwinding bound %d exceeded at %s", p.cfg.Unwind, fr.pos(instr))})
	}
	return p.Branch(c)
}

func (p *Path) assume(c *Term) {
	if c.IsTrue() {
		return
	}
	if c.IsFalse() {
		panic(pathEnd{"infeasible", "assume(false)"})
	}
	i := len(p.decs)
	if i < len(p.prefix) {
		// feasibility was established when this prefix was first run
		p.pushDec(p.prefix[i])
		p.addPC(c)
		return
	}
	p.h.addFeasQueries(1)
	if p.e.solver.CheckWith(c) == "unsat" {
		panic(pathEnd{"infeasible", "assumption unsatisfiable"})
	}
	p.pushDec(Dec{V: 1})
	p.addPC(c)
}

func (p *Path) decsInts() []int {
	r := make([]int, len(p.decs))
	for i, d := range p.decs {
		r[i] = d.V
	}
	return r
}

func (p *Path) fullModel(m map[string]uint64) map[string]uint64 {
	r := map[string]uint64{}
	for k, v := range m {
		r[k] = v
	}
	for k, v := range p.concIn {
		r[k] = v
	}
	return r
}

// assertion handling -------------------------------------------------------

func (p *Path) witness(id string, extra *Term) {
	if !p.h.needWitness(id) {
		return
	}
	var r string
	var m map[string]uint64
	if extra != nil {
		r, m = p.e.solver.CheckModel(p.inputs, extra)
	} else {
		r, m = p.e.solver.CheckModel(p.inputs)
	}
	p.h.addFeasQueries(1)
	if r == "sat" {
		p.h.setWitness(id, p.fullModel(m), p.decsInts())
	} else if r == "unknown" {
		p.h.witnessUnknown(id)
	}
}

func (p *Path) replaying() bool { return len(p.decs) < len(p.prefix) }

func (p *Path) reach(id string) {
	if p.replaying() {
		return
	}
	p.h.countHit(id)
	p.witness(id, nil)
}

func (p *Path) knownPreds(id string) []*KnownFinding {
	var r []*KnownFinding
	for _, k := range p.h.known {
		if k.Assert == id {
			r = append(r, k)
		}
	}
	return r
}

func (p *Path) predTerm(k *KnownFinding) *Term {
	var deps []*Term
	for name, srt := range k.Vars {
		var s Sort
		switch srt {
		case "bool":
			s = BoolSort
		case "bv8":
			s = BVSort(8)
		case "bv32":
			s = BVSort(32)
		default:
			s = BVSort(64)
		}
		deps = append(deps, p.e.ts.Var(name, s))
	}
	sort.Slice(deps, func(i, j int) bool { return deps[i].name < deps[j].name })
	return p.e.ts.Raw(k.Predicate, deps)
}

// assertCond checks that c holds on every extension of the current path.
func (p *Path) assertCond(id string, c *Term, pos string, msg string) {
	ts := p.e.ts
	if p.replaying() {
		// already checked by the ancestor path that generated this prefix (same path condition)
		if c.IsFalse() {
			panic(pathEnd{"stop", "assertion failed unconditionally"})
		}
		p.addPC(c)
		return
	}
	p.h.countHit(id)
	if c.IsTrue() || p.pcSet[c.id] {
		p.witness(id, nil)
		p.h.countObligation(true)
		return
	}
	p.witness(id, c)
	nc := ts.Not(c)
	known := p.knownPreds(id)
	extra := []*Term{nc}
	var kts []*Term
	for _, k := range known {
		kt := p.predTerm(k)
		kts = append(kts, kt)
		extra = append(extra, ts.Not(kt))
	}
	r, m := p.e.solver.CheckModel(p.inputs, extra...)
	p.h.countObligation(false)
	switch r {
	case "sat":
		p.h.addHit(Hit{ID: id, Kind: "violation", Model: p.fullModel(m), Pos: pos, Msg: msg, Decs: p.decsInts()})
	case "unknown":
		p.h.addHit(Hit{ID: id, Kind: "unknown", Pos: pos, Msg: "solver returned unknown for assertion " + id})
	}
	for i, k := range known {
		rk, mk := p.e.solver.CheckModel(p.inputs, nc, kts[i])
		p.h.countObligation(false)
		if rk == "sat" {
			p.h.addHit(Hit{ID: id, Kind: "known", Model: p.fullModel(mk), Pos: pos, Msg: msg, Known: k.What, Decs: p.decsInts()})
		} else if rk == "unknown" {
			p.h.addHit(Hit{ID: id, Kind: "unknown", Pos: pos, Msg: "solver returned unknown for known-finding query " + id})
		}
	}
	// continue under the assumption that the assertion held
	if c.IsFalse() {
		panic(pathEnd{"stop", "assertion failed unconditionally"})
	}
	if r == "sat" || len(known) > 0 {
		if p.e.solver.CheckWith(c) == "unsat" {
			panic(pathEnd{"stop", "assertion cannot hold on this path"})
		}
	}
	p.addPC(c)
}

// Harness-level aggregation ----------------------------------------------------

type KnownFinding struct {
	Property  string            `json:"property"`
	Assert    string            `json:"assert_id"`
	Predicate string            `json:"predicate"`
	Vars      map[string]string `json:"vars"`
	What      string            `json:"what"`
	Site      string            `json:"site,omitempty"`
}

type WitnessRec struct {
	Model map[string]uint64
	Decs  []int
}

type HarnessRun struct {
	Name   string
	tier   string
	fn     *ssa.Function
	cfg    *Config
	prog   *Program
	known  []*KnownFinding
	mu     sync.Mutex
	cond   *sync.Cond
	work   [][]Dec
	active int
	waiting int
	pending int

	Paths        int
	PathKinds    map[string]int
	Steps        int64
	FeasQueries  int
	FeasUnknown  int
	Obligations  int
	Trivial      int
	HitCount     map[string]int
	Hits         []Hit
	Witnesses    map[string]*WitnessRec
	WitUnknown   map[string]bool
	Encoded      map[string]int
	Inconclusive []string
	EngineErr    string
	SolverTime   time.Duration
	SolverQ      int
	SolverErrs   []string
	Wall         time.Duration
	SchedSample  []string
	stop         bool
}

func (h *HarnessRun) addFeasQueries(n int) { h.mu.Lock(); h.FeasQueries += n; h.mu.Unlock() }
func (h *HarnessRun) noteUnknownFeas()     { h.mu.Lock(); h.FeasUnknown++; h.mu.Unlock() }
func (h *HarnessRun) countHit(id string)   { h.mu.Lock(); h.HitCount[id]++; h.mu.Unlock() }
func (h *HarnessRun) countObligation(trivial bool) {
	h.mu.Lock()
	h.Obligations++
	if trivial {
		h.Trivial++
	}
	h.mu.Unlock()
}
func (h *HarnessRun) needWitness(id string) bool {
	h.mu.Lock()
	defer h.mu.Unlock()
	_, ok := h.Witnesses[id]
	return !ok
}
func (h *HarnessRun) setWitness(id string, m map[string]uint64, decs []int) {
	h.mu.Lock()
	if _, ok := h.Witnesses[id]; !ok {
		h.Witnesses[id] = &WitnessRec{m, decs}
	}
	h.mu.Unlock()
}
func (h *HarnessRun) witnessUnknown(id string) { h.mu.Lock(); h.WitUnknown[id] = true; h.mu.Unlock() }
func (h *HarnessRun) addHit(x Hit) {
	h.mu.Lock()
	// keep at most a few hits per (id,kind)
	n := 0
	for _, o := range h.Hits {
		if o.ID == x.ID && o.Kind == x.Kind && o.Known == x.Known {
			n++
		}
	}
	if n < 3 {
		h.Hits = append(h.Hits, x)
	}
	h.mu.Unlock()
}

func (h *HarnessRun) explore(nworkers int) {
	t0 := time.Now()
	h.PathKinds = map[string]int{}
	h.HitCount = map[string]int{}
	h.Witnesses = map[string]*WitnessRec{}
	h.WitUnknown = map[string]bool{}
	h.Encoded = map[string]int{}
	h.cond = sync.NewCond(&h.mu)
	h.work = [][]Dec{nil}
	var wg sync.WaitGroup
	for w := 0; w < nworkers; w++ {
		wg.Add(1)
		go func() {
			defer wg.Done()
			var e *Engine
			defer func() {
				if e != nil {
					h.mu.Lock()
					h.SolverTime += e.solver.Time
					h.SolverQ += e.solver.Queries
					h.SolverErrs = append(h.SolverErrs, e.solver.Errors...)
					h.mu.Unlock()
					e.Close()
				}
			}()
			var local [][]Dec // worker-local DFS stack: consecutive paths share long prefixes
			for {
				h.mu.Lock()
				var prefix []Dec
				if len(local) > 0 && !h.stop {
					prefix = local[len(local)-1]
					local = local[:len(local)-1]
				} else {
					for len(h.work) == 0 && h.active > 0 && !h.stop {
						h.waiting++
						h.cond.Wait()
						h.waiting--
					}
					if h.stop || (len(h.work) == 0 && h.active == 0) {
						h.mu.Unlock()
						h.cond.Broadcast()
						return
					}
					prefix = h.work[len(h.work)-1]
					h.work = h.work[:len(h.work)-1]
				}
				h.active++
				h.mu.Unlock()
				if e == nil {
					e = NewEngine(h.cfg)
				}
				res, p := h.runPath(e, prefix)
				h.mu.Lock()
				h.active--
				h.Paths++
				if os.Getenv("VERIF_PROGRESS") != "" && h.Paths%2000 == 0 {
					fmt.Fprintf(os.Stderr, "  [%s] paths=%d pending=%d kinds=%v %.0fs\n", h.Name, h.Paths, len(h.work), h.PathKinds, time.Since(t0).Seconds())
				}
				h.PathKinds[res.Kind]++
				h.Steps += int64(res.Steps)
				for k, v := range p.encoded {
					h.Encoded[k] += v
				}
				if len(h.SchedSample) == 0 && len(p.sched) > 0 {
					h.SchedSample = p.sched
				}
				switch res.Kind {
				case "error":
					if h.EngineErr == "" {
						h.EngineErr = res.Msg
					}
					h.stop = true
				case "unwind", "steps":
					if len(h.Inconclusive) < 5 {
						h.Inconclusive = append(h.Inconclusive, res.Kind+": "+res.Msg)
					}
				}
				local = append(local, p.alts...)
				// feed idle workers with the oldest (shallowest) local prefixes
				for h.waiting > len(h.work) && len(local) > 1 {
					h.work = append(h.work, local[0])
					local = local[1:]
				}
				h.pending += len(p.alts) - 1
				if h.Paths >= h.cfg.MaxPaths && (len(h.work)+len(local) > 0) && !h.stop {
					h.Inconclusive = append(h.Inconclusive, fmt.Sprintf("path budget %d exhausted with prefixes still pending", h.cfg.MaxPaths))
					h.stop = true
				}
				h.mu.Unlock()
				h.cond.Broadcast()
			}
		}()
	}
	wg.Wait()
	h.Wall = time.Since(t0)
}

// runPath executes the harness once along prefix.
func (h *HarnessRun) runPath(e *Engine, prefix []Dec) (res PathResult, p *Path) {
	p = &Path{
		prog: h.prog.ssa, e: e, cfg: h.cfg, h: h, prefix: prefix,
		globals: map[*ssa.Global]Ptr{}, initDone: map[*ssa.Package]bool{},
		inputSet: map[string]bool{}, concIn: map[string]uint64{}, occ: map[string]int{},
		encoded: map[string]int{}, logs: map[string][]Value{}, mutexes: map[Ptr]*mutexState{},
		wgs: map[Ptr]*wgState{}, ghost: map[string]Value{}, files: map[string]Value{},
		done: make(chan struct{}),
	}
	// reuse the solver's assertion stack for the decisions shared with the previous path
	common := 0
	if e.rootPushed {
		for common < len(e.stackDecs) && common < len(prefix) && e.stackDecs[common] == prefix[common] {
			common++
		}
		for len(e.stackDecs) > common {
			e.solver.Pop()
			e.stackDecs = e.stackDecs[:len(e.stackDecs)-1]
		}
		p.shared = common
		p.rootShared = true
	} else {
		e.solver.Push()
		e.rootPushed = true
		e.stackDecs = e.stackDecs[:0]
	}
	main := p.newThread("main", h.fn, nil)
	p.cur = main
	p.startThread(main, true)
	main.wake <- struct{}{}
	<-p.done
	// make every parked thread unwind
	p.aborting = true
	for _, th := range p.threads {
		if th.started && !th.exited {
			select {
			case th.wake <- struct{}{}:
			default:
			}
		}
	}
	p.wg.Wait()
	res = *p.outcome
	res.Steps = p.steps
	return res, p
}

func (p *Path) finish(r PathResult) {
	p.outMu.Lock()
	defer p.outMu.Unlock()
	if p.outcome == nil {
		p.outcome = &r
		close(p.done)
	}
}

// handleTop converts whatever ended a thread into the path outcome.
func (p *Path) handleTop(th *Thread, r interface{}) {
	switch x := r.(type) {
	case nil:
		if th.id == 0 {
			p.finish(PathResult{Kind: "ok"})
		}
	case pathEnd:
		if x.kind == "stop" && p.aborting {
			return
		}
		kind := x.kind
		if kind == "stop" {
			kind = "ok"
		}
		p.finish(PathResult{Kind: kind, Msg: x.msg})
	case targetPanic:
		if p.aborting {
			return
		}
		// a panic that escapes a thread crashes the program
		id := p.h.Name + ".nopanic"
		func() {
			defer func() { recover() }()
			p.assertCond(id, p.e.ts.False, x.pos, "panic: "+x.msg)
		}()
		p.finish(PathResult{Kind: "panic", Msg: x.msg + " at " + x.pos})
	case engineError:
		p.finish(PathResult{Kind: "error", Msg: string(x)})
	default:
		where := ""
		if p.lastInstr != nil && p.lastFrame != nil {
			where = fmt.Sprintf(" at %s in %s: %v", p.lastFrame.pos(p.lastInstr), p.lastFrame.fn, p.lastInstr)
		}
		st := string(debug.Stack())
		if len(st) > 1500 {
			st = st[:1500]
		}
		p.finish(PathResult{Kind: "error", Msg: fmt.Sprintf("engine crash: %v%s\n%s", r, where, st)})
	}
}

func init() {
	if os.Getenv("VERIF_DEBUG") != "" {
		debugOn = true
	}
}

var debugOn bool

func dbg(format string, a ...interface{}) {
	if debugOn {
		fmt.Fprintf(os.Stderr, format+"\n", a...)
	}
}

func sortedKeys(m map[string]int) []string {
	var ks []string
	for k := range m {
		ks = append(ks, k)
	}
	sort.Strings(ks)
	return ks
}

var _ = strings.Join
