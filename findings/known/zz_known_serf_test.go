//go:build verif

package serf

import (
	"math"
	"testing"
)

// Native confirmation of the known findings (known_findings.json) that live in
// package serf. Each test FAILS on the current tree: it documents a genuine,
// unrepaired violation with the input the solver found.

// C04: a leave intent carrying Prune is re-broadcast a second time.
func TestKnownC04PruneRequeued(t *testing.T) {
	s := vfNewSerf("self", 4)
	s.members["m0"] = &memberState{Member: Member{Name: "m0", Status: StatusAlive}, statusLTime: 1}
	d := &delegate{serf: s}
	msg, _ := encodeMessage(messageLeaveType, &messageLeave{LTime: 5, Node: "m0", Prune: true}, false)
	d.NotifyMsg(msg)
	n1 := s.broadcasts.NumQueued()
	d.NotifyMsg(msg) // the same message again
	if n2 := s.broadcasts.NumQueued(); n2 != n1 {
		t.Fatalf("the duplicate of a prune leave intent was re-queued (queue %d -> %d)", n1, n2)
	}
}

// C19/C03/C14: Lamport time 2^64-1.
func TestKnownC19TopOfRange(t *testing.T) {
	var l LamportClock
	l.Witness(math.MaxUint64)
	if l.Time() <= math.MaxUint64-1 {
		t.Fatalf("clock %d not past the witnessed value", l.Time())
	}
	if got := l.Time(); !(got > LamportTime(math.MaxUint64)) {
		t.Errorf("C19: after Witness(2^64-1) the clock is %d: no representable value is strictly greater", got)
	}
	if got := l.Increment(); got != 0 && got > l.Time() {
		t.Logf("increment %d", got)
	} else if got == 0 {
		t.Errorf("C19: Increment at 2^64-1 wraps to 0")
	}
}

func TestKnownC14CutoffWraps(t *testing.T) {
	recorded := LamportTime(math.MaxUint64)
	cutoff := recorded + 1 // what Create computes for eventMinTime / queryMinTime
	if !(cutoff > recorded) {
		t.Errorf("C14: cut-off for a recorded clock of 2^64-1 is %d: events with that time are delivered again after a restart", cutoff)
	}
}
