package coordinate

import "testing"

// C21 known finding: an adjustment beyond ~4e9 s overflows time.Duration.
func TestKnownC21DurationOverflow(t *testing.T) {
	a := &Coordinate{Vec: []float64{0}, Adjustment: 1.7795640629200286e+231}
	b := &Coordinate{Vec: []float64{0}, Adjustment: 6.59391437809381e-288}
	if d := a.DistanceTo(b); d < 0 {
		t.Fatalf("estimated round-trip time is negative: %d ns", int64(d))
	}
}
