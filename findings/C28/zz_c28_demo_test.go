package client

import (
	"bytes"
	"sync"
	"testing"

	"github.com/hashicorp/go-msgpack/v2/codec"
)

// Native confirmation of the C28 counterexample (schedule found by the solver:
// the reader looks the handler up, Stop closes the subscriber channel, the
// reader then sends on it): repeated until the interleaving occurs.
func TestVfC28SendOnClosedChannel(t *testing.T) {
	var buf bytes.Buffer
	enc := codec.NewEncoder(&buf, &codec.MsgpackHandle{})
	if err := enc.Encode(map[string]any{"Event": "user"}); err != nil {
		t.Fatal(err)
	}
	record := buf.Bytes()
	for iter := 0; iter < 300000; iter++ {
		c := &RPCClient{dispatch: map[uint64]seqHandler{}, shutdownCh: make(chan struct{})}
		c.dec = codec.NewDecoder(bytes.NewReader(record), &codec.MsgpackHandle{})
		ch := make(chan map[string]any, 4)
		h := &streamHandler{client: c, init: true, initCh: make(chan error, 1), eventCh: ch, seq: 5}
		c.handleSeq(5, h)
		var wg sync.WaitGroup
		var panicked any
		start := make(chan struct{})
		wg.Add(2)
		go func() {
			defer wg.Done()
			defer func() { panicked = recover() }()
			<-start
			c.respondSeq(5, &responseHeader{Seq: 5})
		}()
		go func() { defer wg.Done(); <-start; c.deregisterHandler(5) }()
		close(start)
		wg.Wait()
		if panicked != nil {
			t.Fatalf("iteration %d: reader goroutine panicked: %v", iter, panicked)
		}
	}
}
