package serf

import (
	"io"
	"log"
	"net"
	"os"
	"path/filepath"
	"testing"
	"time"
)

// Native confirmation of the C11 counterexample found by the solver: the process
// dies inside compact() after os.Remove(path) and before os.Rename(tmp, path)
// (crash point 8 of the step). The directory then holds only the complete,
// synced "<path>.compact"; a restart ignores it and comes up with nothing.
// The crash-point directory is reproduced from a real snapshot: the compacted
// file is exactly what "<path>.compact" holds at that instant.
func TestVfC11CrashBetweenRemoveAndRename(t *testing.T) {
	dir := t.TempDir()
	path := filepath.Join(dir, "snap")
	logger := log.New(io.Discard, "", 0)
	clock := new(LamportClock)
	clock.Witness(41)
	shutdown := make(chan struct{})
	in, snap, err := NewSnapshotter(path, 1<<20, false, logger, clock, nil, shutdown)
	if err != nil {
		t.Fatal(err)
	}
	in <- MemberEvent{Type: EventMemberJoin, Members: []Member{{Name: "peer", Addr: net.IP{10, 0, 0, 1}, Port: 7946}}}
	in <- UserEvent{LTime: 7, Name: "e"}
	time.Sleep(200 * time.Millisecond)
	close(shutdown)
	snap.Wait()
	// the directory as the crash leaves it: old file removed, new file not yet renamed
	if err := os.Rename(path, path+tmpExt); err != nil {
		t.Fatal(err)
	}
	_, snap2, err := NewSnapshotter(path, 1<<20, false, logger, new(LamportClock), nil, make(chan struct{}))
	if err != nil {
		t.Fatal(err)
	}
	if got := snap2.AliveNodes(); len(got) != 1 || got[0].Name != "peer" {
		t.Errorf("rejoin set lost: %v", got)
	}
	if snap2.LastClock() != 41 || snap2.LastEventClock() != 7 {
		t.Errorf("clocks lost: clock=%d event clock=%d (want 41, 7)", snap2.LastClock(), snap2.LastEventClock())
	}
}
