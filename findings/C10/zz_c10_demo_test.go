package serf

import (
	"io"
	"log"
	"net"
	"path/filepath"
	"testing"
	"time"
)

// Native confirmation of the C10 known finding: a member name that contains a
// newline is not restored from the snapshot.
func TestVfC10NewlineInName(t *testing.T) {
	path := filepath.Join(t.TempDir(), "snap")
	clock := new(LamportClock)
	clock.Increment()
	shutdown := make(chan struct{})
	logger := log.New(io.Discard, "", 0)
	in, snap, err := NewSnapshotter(path, 1<<20, false, logger, clock, nil, shutdown)
	if err != nil {
		t.Fatal(err)
	}
	in <- MemberEvent{Type: EventMemberJoin, Members: []Member{{Name: "a\nb", Addr: net.IP{10, 0, 0, 1}, Port: 7946}}}
	time.Sleep(200 * time.Millisecond)
	close(shutdown)
	snap.Wait()
	_, snap2, err := NewSnapshotter(path, 1<<20, false, logger, new(LamportClock), nil, make(chan struct{}))
	if err != nil {
		t.Fatal(err)
	}
	got := snap2.AliveNodes()
	if len(got) != 1 || got[0].Name != "a\nb" {
		t.Fatalf("member %q joined before the restart; rejoin set after the restart: %v", "a\nb", got)
	}
}
