package coordinate

import "testing"

// Native confirmation of the C21 counterexample found by the solver: the
// estimate depends on the direction, because heights and adjustments are added
// one after the other (floating-point addition is not associative) and the
// positivity guard then falls on different sides: here one direction uses the
// adjusted distance (0.2 ns) and the other the raw distance (21 minutes).
func TestVfC21DistanceSymmetric(t *testing.T) {
	a := &Coordinate{Vec: []float64{0}, Height: 0.008086143005177973, Adjustment: 2815.9997261185745}
	b := &Coordinate{Vec: []float64{0}, Height: 1279.9921877384202, Adjustment: -4095.9999999999995}
	ab, ba := a.DistanceTo(b), b.DistanceTo(a)
	d := ab - ba
	if d < 0 {
		d = -d
	}
	if d > 1 {
		t.Fatalf("a.DistanceTo(b) = %v but b.DistanceTo(a) = %v", ab, ba)
	}
}
