package agent

import (
	"fmt"
	"sync"
	"testing"
)

type c29Sink struct {
	mu    sync.Mutex
	lines []string
}

func (s *c29Sink) Write(p []byte) (int, error) {
	s.mu.Lock()
	s.lines = append(s.lines, string(p))
	s.mu.Unlock()
	return len(p), nil
}

// Native confirmation of the C29 counterexamples (schedules found by the solver,
// reproduced by repetition): (1) two writers before the gate opens lose a line,
// (2) a line written after the gate opened overtakes buffered lines.
func TestVfC29GatedWriterLosesLine(t *testing.T) {
	for iter := 0; iter < 200000; iter++ {
		sink := &c29Sink{}
		w := &GatedWriter{Writer: sink}
		var wg sync.WaitGroup
		start := make(chan struct{})
		for i := 0; i < 2; i++ {
			wg.Add(1)
			go func(i int) { defer wg.Done(); <-start; w.Write([]byte(fmt.Sprintf("w%d", i))) }(i)
		}
		close(start)
		wg.Wait()
		w.Flush()
		if len(sink.lines) != 2 {
			t.Fatalf("iteration %d: 2 lines written before the gate opened, %d delivered: %v", iter, len(sink.lines), sink.lines)
		}
	}
}

func TestVfC29GatedWriterOvertake(t *testing.T) {
	for iter := 0; iter < 2000; iter++ {
		sink := &c29Sink{}
		w := &GatedWriter{Writer: sink}
		for i := 0; i < 200; i++ {
			w.Write([]byte("buffered"))
		}
		done := make(chan struct{})
		go func() {
			defer close(done)
			for {
				w.lock.RLock()
				open := w.flush
				w.lock.RUnlock()
				if open {
					break
				}
			}
			w.Write([]byte("later"))
		}()
		w.Flush()
		<-done
		if last := sink.lines[len(sink.lines)-1]; last != "later" {
			t.Fatalf("iteration %d: the line written after the gate opened was delivered before buffered lines (position %d of %d)", iter, indexOf(sink.lines, "later"), len(sink.lines))
		}
	}
}

func indexOf(l []string, x string) int {
	for i, s := range l {
		if s == x {
			return i
		}
	}
	return -1
}
