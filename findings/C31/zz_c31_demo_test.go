package agent

import "testing"

// Native confirmation of the C31 counterexamples found by the solver.
func TestVfC31MergeSideEffectsAndDroppedSwitches(t *testing.T) {
	a := &Config{Tags: map[string]string{"k": "a"}}
	b := &Config{Tags: map[string]string{"k": "b", "b": "x"}}
	MergeConfig(a, b)
	if len(a.Tags) != 1 || a.Tags["k"] != "a" {
		t.Errorf("MergeConfig modified its first input: a.Tags = %v", a.Tags)
	}
	r := MergeConfig(&Config{}, &Config{ValidateNodeNames: true})
	if !r.ValidateNodeNames {
		t.Errorf("validate_node_names of the later source is dropped")
	}
	r = MergeConfig(&Config{}, &Config{MsgpackUseNewTimeFormat: true})
	if !r.MsgpackUseNewTimeFormat {
		t.Errorf("MsgpackUseNewTimeFormat of the later source is dropped")
	}
}
