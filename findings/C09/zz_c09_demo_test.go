//go:build verif

package serf

import (
	"testing"
	"time"
)

// Native confirmation of the C09 counterexamples found by the solver: network
// input that makes a node panic. The messages go through the REAL msgpack
// encoder and decoder.
func vfC09Survives(t *testing.T, what string, f func()) {
	defer func() {
		if r := recover(); r != nil {
			t.Errorf("%s: node panicked: %v", what, r)
		}
	}()
	f()
}

func TestVfC09EmptyFilterPanics(t *testing.T) {
	s := vfNewSerf("self", 4)
	d := &delegate{serf: s}
	buf, err := encodeMessage(messageQueryType, &messageQuery{LTime: 1, ID: 2, Addr: []byte{127, 0, 0, 1}, Port: 1, SourceNode: "o",
		Filters: [][]byte{{}}, Timeout: time.Second, Name: "q"}, false)
	if err != nil {
		t.Fatal(err)
	}
	vfC09Survives(t, "query with a zero-length filter", func() { d.NotifyMsg(buf) })
}

func TestVfC09EmptyKeyPayloadPanics(t *testing.T) {
	s := vfNewSerf("self", 4)
	sq := &serfQueries{serf: s, logger: vfLogger()}
	for _, name := range []string{installKeyQuery, useKeyQuery, removeKeyQuery} {
		q := &Query{serf: s, id: 7, LTime: 5, Name: internalQueryName(name), Payload: nil, deadline: time.Now().Add(-time.Second)}
		vfC09Survives(t, name+" query with an empty payload", func() { sq.handleQuery(q) })
	}
}
