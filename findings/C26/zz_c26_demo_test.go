package agent

import (
	"testing"

	"github.com/hashicorp/serf/serf"
)

// Native confirmation of the C26 counterexamples found by the solver
// (pattern "ab|c" with member name "pc"; invalid pattern "*a").
func TestVfC26FilterWholeMatch(t *testing.T) {
	i := &AgentIPC{}
	ms := []serf.Member{{Name: "pc", Status: serf.StatusAlive}}
	res, err := i.filterMembers(ms, nil, "", "ab|c")
	if err != nil || len(res) != 0 {
		t.Fatalf("name pattern %q must match the whole name; member %q was listed (res=%v err=%v)", "ab|c", "pc", res, err)
	}
	res, err = i.filterMembers(ms, nil, "", "*a")
	if err == nil {
		t.Fatalf("invalid pattern %q was accepted (res=%v)", "*a", res)
	}
	res, err = i.filterMembers([]serf.Member{{Name: "n", Status: serf.StatusLeaving}}, nil, "left|failed", "")
	if err != nil || len(res) != 0 {
		t.Fatalf("status pattern left|failed listed a member with status leaving (res=%v err=%v)", res, err)
	}
}
