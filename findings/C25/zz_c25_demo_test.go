//go:build verif

package agent

import (
	"sync"
	"testing"
	"time"

	"github.com/hashicorp/serf/serf"
)

type c25Client struct {
	mu   sync.Mutex
	recs []queryRecord
}

func (c *c25Client) Send(h *responseHeader, obj any) error {
	c.mu.Lock()
	defer c.mu.Unlock()
	if r, ok := obj.(*queryRecord); ok {
		c.recs = append(c.recs, *r)
	}
	return nil
}
func (c *c25Client) RegisterQuery(q *serf.Query) uint64 { return 0 }

// Native confirmation of the C25 counterexample: Serf closes the query's
// channels (its own timeout) shortly before the stream's completion timer
// fires; the stream then reports acknowledgements and responses that no node
// ever sent (zero-value records read from the closed channels).
func TestVfC25QueryStreamPhantomRecords(t *testing.T) {
	c := &c25Client{}
	qs := newQueryResponseStream(c, 42, nil)
	resp := serf.VfNewQueryResponse(4, true, 7, 9, 50*time.Millisecond)
	resp.VfDeliverAck("n0")
	resp.Close() // what Serf's query timeout does
	qs.Stream(resp)
	phantom, dones := 0, 0
	for _, r := range c.recs {
		if (r.Type == queryRecordAck || r.Type == queryRecordResponse) && r.From == "" {
			phantom++
		}
		if r.Type == queryRecordDone {
			dones++
		}
	}
	if phantom > 0 {
		t.Fatalf("query stream sent %d acknowledgement/response records that no node sent (of %d records)", phantom, len(c.recs))
	}
	if dones != 1 {
		t.Fatalf("expected exactly one completion record, got %d", dones)
	}
}
