package serf

import (
	"io"
	"log"
	"os"
	"path/filepath"
	"testing"
)

// Native confirmation of the C12 counterexample found by the solver: one file
// operation inside compact() fails after the live handles were dropped (here:
// os.Remove fails because the snapshot file was deleted under the running
// node); compact() returns the error with buffered == nil and fh == nil, and the
// very next recorded event dereferences them.
func TestVfC12AppendAfterFailedCompaction(t *testing.T) {
	path := filepath.Join(t.TempDir(), "snap")
	logger := log.New(io.Discard, "", 0)
	clock := new(LamportClock)
	clock.Increment()
	// the background goroutines stay idle: no events are sent, and the shutdown channel is never closed
	_, snap, err := NewSnapshotter(path, 1<<20, false, logger, clock, nil, make(chan struct{}))
	if err != nil {
		t.Fatal(err)
	}
	if err := os.Remove(path); err != nil {
		t.Fatal(err)
	}
	if err := snap.compact(); err == nil {
		t.Skip("compaction did not fail on this platform")
	}
	defer func() {
		if r := recover(); r != nil {
			t.Fatalf("recording an event after the failed compaction panicked: %v", r)
		}
	}()
	snap.processUserEvent(UserEvent{LTime: 5, Name: "e"})
}
