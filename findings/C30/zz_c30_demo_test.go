package agent

import (
	"encoding/json"
	"os"
	"path/filepath"
	"reflect"
	"strings"
	"testing"

	"github.com/hashicorp/serf/serf"
	"github.com/hashicorp/serf/testutil"
)

// Native confirmation of the C30 counterexample: an edit the node rejects
// (encoded tags exceed the metadata limit) is persisted although it is not in
// effect, so the tags loaded at the next start differ from the effective ones.
func TestVfC30RejectedEditNotPersisted(t *testing.T) {
	td := t.TempDir()
	ip, ret := testutil.TakeIP()
	defer ret()
	agentConfig := DefaultConfig()
	agentConfig.TagsFile = filepath.Join(td, "tags.json")
	a := testAgentWithConfig(t, ip, agentConfig, serf.DefaultConfig(), nil)
	if err := a.Start(); err != nil {
		t.Fatalf("err: %v", err)
	}
	defer a.Shutdown()
	if err := a.SetTags(map[string]string{"role": "web"}); err != nil {
		t.Fatalf("err: %v", err)
	}
	big := map[string]string{"role": strings.Repeat("x", 600)}
	if err := a.SetTags(big); err == nil {
		t.Fatalf("oversize tags should be rejected")
	}
	effective := a.SerfConfig().Tags
	data, err := os.ReadFile(agentConfig.TagsFile)
	if err != nil {
		t.Fatalf("err: %v", err)
	}
	persisted := map[string]string{}
	if err := json.Unmarshal(data, &persisted); err != nil {
		t.Fatalf("err: %v", err)
	}
	if !reflect.DeepEqual(persisted, effective) {
		t.Fatalf("tags file holds a rejected edit: persisted role has %d bytes, effective tags are %v", len(persisted["role"]), effective)
	}
}
