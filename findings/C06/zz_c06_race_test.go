//go:build verif

package serf

import (
	"net"
	"sync"
	"testing"
	"time"

	"github.com/hashicorp/memberlist"
)

// Native confirmation of the C06 counterexample: two concurrent UserEvent calls
// obtain the same Lamport time (both read eventClock.Time() before either
// increments). The schedule found by the solver is reproduced by repetition.
func TestVfC06UserEventSharedTime(t *testing.T) {
	for iter := 0; iter < 200000; iter++ {
		s := vfNewSerf("self", 64)
		var wg sync.WaitGroup
		start := make(chan struct{})
		for _, n := range []string{"a", "b"} {
			wg.Add(1)
			go func(n string) { defer wg.Done(); <-start; s.UserEvent(n, nil, false) }(n)
		}
		close(start)
		wg.Wait()
		evs := vfDrainEvents(s)
		if len(evs) == 2 && evs[0].(UserEvent).LTime == evs[1].(UserEvent).LTime {
			t.Fatalf("iteration %d: two locally issued user events share Lamport time %d", iter, evs[0].(UserEvent).LTime)
		}
	}
}

func TestVfC06QuerySharedTime(t *testing.T) {
	conf := memberlist.DefaultLANConfig()
	conf.BindAddr = "127.0.0.1"
	conf.BindPort = 0
	conf.Name = "self"
	_ = net.IP{}
	for iter := 0; iter < 200; iter++ {
		s := vfNewSerf("self", 64)
		ml, err := memberlist.Create(conf)
		if err != nil {
			t.Skip(err)
		}
		s.memberlist = ml
		s.config.MemberlistConfig = conf
		for k := 0; k < 500; k++ {
			var wg sync.WaitGroup
			start := make(chan struct{})
			var r [2]*QueryResponse
			for i := 0; i < 2; i++ {
				wg.Add(1)
				go func(i int) {
					defer wg.Done()
					<-start
					r[i], _ = s.Query("q", nil, &QueryParam{Timeout: time.Millisecond})
				}(i)
			}
			close(start)
			wg.Wait()
			vfDrainEvents(s)
			if r[0] != nil && r[1] != nil && r[0].lTime == r[1].lTime {
				ml.Shutdown()
				t.Fatalf("two locally issued queries share Lamport time %d (second registration overwrote the first)", r[0].lTime)
			}
		}
		ml.Shutdown()
	}
}
